"""C11 - API diff: silent on compatible change, reports every public removal / re-kinding (structural part).

R1 public frontier (dominance + abstract table), R2 dispatch exhaustiveness (decision table of _type_based_yield),
R3 removal / base / value rules (decision tables), R4 skip-don't-abort (alias dereference discipline in diff.py),
R5 registries and CLI exit code, R6 is_public table, R7 compatible additions, R8 explain() totality table.
"""

from __future__ import annotations

import ast
import itertools

from sa.absint import Interp, Obj, Raised, Sym, lazy
from sa.aliasderef import AliasDeref, catches_both, enclosing_catch
from sa.callgraph import CallGraph
from sa.cfg import implied
from sa.report import Ctx
from sa.srcmodel import AnalysisError, FunctionInfo, Program, dotted, norm, unparse, walk_no_nested
from sa.util import canon_text, calls_in, cfg_of, key, node_index, where

D = "_griffe.diff"


def run(prog: Program, ctx: Ctx) -> None:  # noqa: PLR0912,PLR0915
    cg = CallGraph(prog)
    mi = prog.function(f"{D}._member_incompatibilities")
    tby = prog.function(f"{D}._type_based_yield")

    # ------------------------------------------------------------------ R1 public frontier
    ctx.rule("R1", "every breakage that can come out of the member walk is dominated by `old_member.is_public`; the walk iterates and "
                   "looks up through all_members on both sides (inherited and re-exported members included)")
    cfg = cfg_of(mi)
    ynodes = [n for n in cfg.live_nodes() if n.stmt is not None and any(isinstance(x, (ast.Yield, ast.YieldFrom)) for x in walk_no_nested(n.stmt, include_self=True))
              and n.kind in ("stmt", "return")]
    ctx.expect_min("R1", len(ynodes), 2)
    loops = [n for n in walk_no_nested(mi.node) if isinstance(n, ast.For)]
    if len(loops) != 1:
        raise AnalysisError("C11-R1: expected exactly one member loop in _member_incompatibilities")
    loop = loops[0]
    tv = None
    if isinstance(loop.target, ast.Tuple) and len(loop.target.elts) == 2:
        tv = unparse(loop.target.elts[1])
    it = unparse(loop.iter)
    old_param = mi.params[0]
    new_param = mi.params[1]
    ctx.ob("R1", key(mi, "iterates-all_members"), it.replace(" ", "") == f"{old_param}.all_members.items()",
           f"the walk iterates `{it}` (must be the old object's all_members: inherited / re-exported members are part of the API)", where(mi, loop))
    for y in ynodes:
        ok = tv is not None and cfg.dominated_by_fact(y, lambda a, t: t and unparse(a) == f"{tv}.is_public")
        ctx.ob("R1", key(mi, f"public-dominates:{norm(y.stmt, 70)}"), ok,
               f"`{norm(y.stmt, 60)}` is reached only for public old members", where(mi, y.stmt))
    attrs_new = {n.attr for n in walk_no_nested(mi.node) if isinstance(n, ast.Attribute) and dotted(n.value) == new_param}
    attrs_old = {n.attr for n in walk_no_nested(mi.node) if isinstance(n, ast.Attribute) and dotted(n.value) == old_param}
    ctx.ob("R1", key(mi, "lookup-all_members"), "all_members" in attrs_new and not (attrs_new & {"members", "inherited_members"}),
           f"the new side is looked up through all_members only (attributes used: {sorted(attrs_new)})", where(mi))
    ctx.ob("R1", key(mi, "old-side-all_members-only"), not (attrs_old & {"members", "inherited_members"}),
           f"the old side is walked through all_members only (attributes used: {sorted(attrs_old)})", where(mi))

    # ------------------------------------------------------------------ abstract tables (R2, R3)
    itp = Interp(prog)
    K = {k: itp.enum("_griffe.enumerations.Kind", k) for k in ("MODULE", "CLASS", "FUNCTION", "ATTRIBUTE", "ALIAS")}
    ocls = prog.cls("_griffe.models.Object")
    calls: list[tuple[str, tuple]] = []

    def stub(name):
        def f(_i, *a, **_k):
            calls.append((name, a))
            return [Sym(f"<{name}>")]
        return f

    for name in ("_alias_incompatibilities", "_member_incompatibilities", "_class_incompatibilities", "_function_incompatibilities",
                 "_attribute_incompatibilities"):
        itp.stubs[f"{D}.{name}"] = stub(name)

    def member(kind: str, *, alias: bool, path: str, public: bool = True, name: str = "m") -> Obj:
        k = K[kind]
        return Obj(ocls, {
            "name": name, "path": path, "is_alias": alias, "kind": k, "is_public": public,
            "is_module": kind == "MODULE", "is_class": kind == "CLASS", "is_function": kind == "FUNCTION", "is_attribute": kind == "ATTRIBUTE",
        }, label=f"{kind}{'@alias' if alias else ''}")

    ctx.rule("R2", "_type_based_yield decision table over (old alias?, new alias?, old kind, new kind): alias on either side -> alias handler; "
                   "different kinds -> ObjectChangedKindBreakage on the new object; same kind -> that kind's comparison; a path already seen -> nothing")
    handler = {"MODULE": "_member_incompatibilities", "CLASS": "_class_incompatibilities", "FUNCTION": "_function_incompatibilities",
               "ATTRIBUTE": "_attribute_incompatibilities"}
    kinds = ["MODULE", "CLASS", "FUNCTION", "ATTRIBUTE"]

    def seen_kw(f: FunctionInfo) -> str:
        extra = [a.arg for a in (*f.node.args.args[2:], *f.node.args.kwonlyargs)]
        if len(extra) != 1:
            raise AnalysisError(f"C11: cannot identify the visited-set parameter of {f.qualname}")
        return extra[0]

    rows = 0
    for oa, na, ok_, nk in itertools.product((False, True), (False, True), kinds, kinds):
        calls.clear()
        old = member(ok_, alias=oa, path="p.m")
        new = member(nk, alias=na, path="p.m")
        try:
            out = itp.call(tby, old, new, **{seen_kw(tby): set()})
        except Raised as r:
            out = [f"<raised {r.exc}>"]
        rows += 1
        if oa or na:
            want = "alias handler"
            got_ok = [c[0] for c in calls] == ["_alias_incompatibilities"] and calls[0][1][:2] == (old, new)
        elif ok_ != nk:
            want = "ObjectChangedKindBreakage(new, old kind, new kind)"
            got_ok = (not calls and len(out) == 1 and isinstance(out[0], Obj) and out[0].cls is not None and out[0].cls.name == "ObjectChangedKindBreakage"
                      and out[0].attrs.get("obj") is new and out[0].attrs.get("old_value") == K[ok_] and out[0].attrs.get("new_value") == K[nk])
        else:
            want = handler[ok_]
            got_ok = [c[0] for c in calls] == [handler[ok_]] and calls[0][1][:2] == (old, new)
        ctx.ob("R2", f"row|old={'alias ' if oa else ''}{ok_}|new={'alias ' if na else ''}{nk}", got_ok,
               f"old={'alias to ' if oa else ''}{ok_}, new={'alias to ' if na else ''}{nk}: expected {want}; got calls={[c[0] for c in calls]} yields={out}", where(tby))
    # visited-set rows, on behaviour: the same comparison a second time yields nothing (no duplicate reports, no endless recursion through aliases) ...
    seen: set = set()
    b_old, b_new = member("FUNCTION", alias=False, path="p.Base.run"), member("FUNCTION", alias=False, path="p.Base.run")
    calls.clear()
    itp.call(tby, b_old, b_new, **{seen_kw(tby): seen})
    first = [c[0] for c in calls]
    calls.clear()
    out = itp.call(tby, b_old, b_new, **{seen_kw(tby): seen})
    ctx.ob("R2", "row|already-seen", first == ["_function_incompatibilities"] and not out and not calls,
           f"the same pair compared twice: first {first}, second yields {out} calls {[c[0] for c in calls]} (expected nothing the second time)", where(tby))
    # ... but an old object already compared once (Base.run against Base.run) and now reached again through another public member (Worker.run, inherited
    # in the old version) is still compared against what that member is in the new version (an override with another signature)
    saved = itp.stubs.pop(f"{D}._alias_incompatibilities")
    w_old = member("FUNCTION", alias=True, path="p.Worker.run")
    w_old.attrs["target"] = b_old
    w_new = member("FUNCTION", alias=False, path="p.Worker.run")
    calls.clear()
    try:
        itp.call(tby, w_old, w_new, **{seen_kw(tby): seen})
        got_calls: object = [(c[0], c[1][0] is b_old, c[1][1] is w_new) for c in calls]
    except Raised as r:
        got_calls = f"raises {r.exc}"
    itp.stubs[f"{D}._alias_incompatibilities"] = saved
    ctx.ob("R2", "row|seen-object-reached-through-another-member", got_calls == [("_function_incompatibilities", True, True)],
           f"Base.run was compared with Base.run; Worker.run (old: inherited Base.run, new: its own definition) must still be compared: got {got_calls}, "
           "expected one function comparison of (old Base.run, new Worker.run)", where(tby))
    # a change found behind a re-export is reported against a public path of the object (the re-export), not against the private module it lives in
    saved = itp.stubs.pop(f"{D}._alias_incompatibilities")
    t_old, t_new = member("FUNCTION", alias=False, path="p._impl.f", name="f"), member("CLASS", alias=False, path="p._impl.f", name="f")
    r_old, r_new = member("FUNCTION", alias=True, path="p.f", name="f"), member("CLASS", alias=True, path="p.f", name="f")
    r_old.attrs["target"], r_new.attrs["target"] = t_old, t_new
    try:
        out = itp.call(tby, r_old, r_new, **{seen_kw(tby): set()})
        rep = [(o.cls.name, itp.getattr(o.attrs["obj"], "path")) for o in out if isinstance(o, Obj) and o.cls is not None]
    except Raised as r:
        rep = [f"raises {r.exc}"]
    itp.stubs[f"{D}._alias_incompatibilities"] = saved
    ctx.ob("R2", "row|re-export-reported-against-public-path", rep == [("ObjectChangedKindBreakage", "p.f")],
           f"`p.f` re-exports `p._impl.f`, which turned from a function into a class: reported as {rep}; the public path is p.f "
           "(p._impl is private: a report against p._impl.f names something the user never imported)", where(tby))
    ctx.expect_min("R2", rows, 64)

    ctx.rule("R3", "decision tables: a public old member missing on the new side -> exactly one ObjectRemovedBreakage (non-public -> nothing; "
                   "present -> delegated to the type dispatch); fewer and different bases -> ClassRemovedBaseBreakage; attribute value changed -> "
                   "AttributeChangedValueBreakage")
    del itp.stubs[f"{D}._member_incompatibilities"]
    itp.stubs[f"{D}._type_based_yield"] = stub("_type_based_yield")
    for public, alias, kind, present in itertools.product((True, False), (False, True), ("MODULE", "FUNCTION"), (True, False)):
        calls.clear()
        m_old = member(kind, alias=alias, path="p.m", public=public)
        m_new = member(kind, alias=False, path="p.m")
        old = Obj(ocls, {"path": "p", "all_members": {"m": m_old}, "members": {"m": m_old}})
        new = Obj(ocls, {"path": "p", "all_members": {"m": m_new} if present else {}, "members": {"m": m_new} if present else {}})
        try:
            out = itp.call(mi, old, new)
        except Raised as r:
            out = [f"<raised {r.exc}>"]
        names = [o.cls.name if isinstance(o, Obj) and o.cls else str(o) for o in out]
        if not public:
            good = not out and not calls
            want = "nothing (not public)"
        elif present:
            good = [c[0] for c in calls] == ["_type_based_yield"] and calls[0][1][:2] == (m_old, m_new)
            want = "delegation to _type_based_yield(old member, new member)"
        else:
            good = names == ["ObjectRemovedBreakage"] and out[0].attrs.get("obj") is m_old
            want = "one ObjectRemovedBreakage on the old member"
        ctx.ob("R3", f"member|public={public}|alias={alias}|{kind}|present={present}", good, f"expected {want}; got yields={names} calls={[c[0] for c in calls]}", where(mi))
    # class bases
    ci = prog.function(f"{D}._class_incompatibilities")
    itp.stubs.pop(f"{D}._class_incompatibilities", None)
    itp.stubs.pop(f"{D}._attribute_incompatibilities", None)
    itp.stubs[f"{D}._member_incompatibilities"] = stub("_member_incompatibilities")
    for ob, nb in ((["A", "B"], ["A"]), (["A"], ["A"]), (["A"], ["A", "B"]), (["A", "B"], ["B", "A"]), (["A", "B"], []), (["A"], ["B"])):
        calls.clear()
        out = itp.call(ci, Obj(ocls, {"bases": ob, "path": "p.C"}), Obj(ocls, {"bases": nb, "path": "p.C"}), **{seen_kw(ci): set()})
        names = [o.cls.name for o in out if isinstance(o, Obj) and o.cls]
        want = ["ClassRemovedBaseBreakage"] if (len(nb) < len(ob) and nb != ob) else []
        ctx.ob("R3", f"bases|{ob}->{nb}", names == want and [c[0] for c in calls] == ["_member_incompatibilities"],
               f"bases {ob} -> {nb}: expected {want or 'no base breakage'} and the member walk; got {names}, calls={[c[0] for c in calls]}", where(ci))
    ai = prog.function(f"{D}._attribute_incompatibilities")
    for ov, nv in (("1", "1"), ("1", "2"), ("1", None), (None, "1"), (None, None)):
        out = itp.call(ai, Obj(ocls, {"value": ov}), Obj(ocls, {"value": nv}))
        names = [o.cls.name for o in out if isinstance(o, Obj) and o.cls]
        want = ["AttributeChangedValueBreakage"] if ov != nv else []
        ctx.ob("R3", f"value|{ov}->{nv}", names == want, f"attribute value {ov} -> {nv}: expected {want or 'nothing'}; got {names}", where(ai))

    # ------------------------------------------------------------------ R4 skip, don't abort
    ctx.rule("R4", "no alias error escapes the comparison: in diff.py every dereference of a possibly-alias member is dominated by "
                   "`not x.is_alias`, handled for both AliasResolutionError and CyclicAliasError, or tabled with a reason")
    ad = AliasDeref(prog, cg)
    scope = [f for f in prog.functions.values() if f.module.name == D]
    # keys use canonical names (sa.util.canon_names: parameters p0.., other bound names v0.. by first binding), so renaming variables changes nothing
    TABLED = {
        (f"{D}._member_incompatibilities", "p0.all_members"): "walk root: called with modules/classes from the non-alias arms of the dispatch (checked below)",
        (f"{D}._member_incompatibilities", "p1.all_members"): "same",
        (f"{D}._class_incompatibilities", "p1.bases"): "called from the class arm of the dispatch, which is dominated by neither side being an alias",
        (f"{D}._class_incompatibilities", "p0.bases"): "same",
        (f"{D}._function_incompatibilities", "p1.parameters"): "function arm of the dispatch (neither side an alias)",
        (f"{D}._function_incompatibilities", "p0.parameters"): "same",
        (f"{D}._function_incompatibilities", "p0.returns"): "same",
        (f"{D}._function_incompatibilities", "p1.returns"): "same",
        (f"{D}._returns_are_compatible", "p0.returns"): "same",
        (f"{D}._returns_are_compatible", "p1.returns"): "same",
        (f"{D}._attribute_incompatibilities", "p0.value"): "attribute arm of the dispatch (neither side an alias)",
        (f"{D}._attribute_incompatibilities", "p1.value"): "same",
    }
    PARENT = "the reported alias sits in a loaded tree: its parent is the object whose members were walked (a non-alias arm of the dispatch, or the caller's resolved root)"
    for helper, attr in (("_filepath", "filepath"), ("_relative_filepath", "relative_filepath"), ("_relative_package_filepath", "relative_package_filepath"),
                         ("_module_path", "module")):
        TABLED[(f"{D}.Breakage.{helper}", f"self.obj.parent.{attr}")] = PARENT
    sites = ad.scan(scope, TABLED, object_may_be_alias=True)  # in diff.py members typed `Object` are routinely aliases (re-exports)
    # Methods of the Breakage classes: `self.obj` is the reported member (declared `Object`, routinely an alias).  `old_value` / `new_value` are
    # declared `Any`; what the walk stores there (parameters, kinds, expressions, strings) is exercised by the totality table R8 instead of being
    # guessed here from untyped receivers.
    sites = [st for st in sites if st.fn.cls is None or st.receiver == "self.obj" or st.receiver.startswith("self.obj.")]
    for st in sites:
        ctx.ob("R4", key(st.fn, f"deref:{canon_text(st.fn, st.node)}"), st.status != "OPEN",
               f"{st.status}: {st.reason}" if st.status != "OPEN" else st.reason + ": the error would abort find_breaking_changes", where(st.fn, st.node))
    ctx.expect_min("R4", len(sites), 8)
    # the tabled reasons rest on the dispatch: the kind arms of _type_based_yield are reached only when neither side is an alias
    cfgt = cfg_of(tby)
    idx = node_index(tby)
    o_p, n_p = tby.params[0], tby.params[1]
    n_arms = 0
    for c in calls_in(tby.node):
        tq = {x.qualname for x, _k in cg.callees_of_call(tby, c) if isinstance(x, FunctionInfo)}
        if tq & {f"{D}._member_incompatibilities", f"{D}._class_incompatibilities", f"{D}._function_incompatibilities", f"{D}._attribute_incompatibilities"}:
            n_arms += 1
            for n in idx.get(id(c), []):
                a_ok = cfgt.dominated_by_fact(n, lambda a, t: not t and unparse(a) == f"{o_p}.is_alias")
                b_ok = cfgt.dominated_by_fact(n, lambda a, t: not t and unparse(a) == f"{n_p}.is_alias")
                ctx.ob("R4", key(tby, f"arm-not-alias:{norm(c.func)}"), a_ok and b_ok, "kind-specific comparison runs only when neither side is an alias", where(tby, c))
    ctx.expect_min("R4", n_arms, 4)

    # ------------------------------------------------------------------ R5 registries and exit code
    ctx.rule("R5", "each BreakageKind has exactly one Breakage subclass; each ExplanationStyle has an _explain_<value> method; the CLI check "
                   "prints every breakage and returns 1 exactly when the list is non-empty")
    bk = prog.cls("_griffe.enumerations.BreakageKind")
    members = [m for m, v in bk.class_attrs.items() if isinstance(v, ast.Constant)]
    base = prog.cls(f"{D}.Breakage")
    by_kind: dict[str, list[str]] = {}
    for c in prog.subclasses(base):
        v = c.class_attrs.get("kind")
        if v is not None and (dotted(v) or "").startswith("BreakageKind."):
            by_kind.setdefault((dotted(v) or "").split(".")[-1], []).append(c.name)
    for m in members:
        ctx.ob("R5", f"kind|{m}", len(by_kind.get(m, [])) == 1, f"BreakageKind.{m} has subclasses {by_kind.get(m, [])} (exactly one expected)", f"{bk.module.relpath}:{bk.node.lineno}")
    ctx.expect_min("R5", len(members), 12)
    es = prog.cls("_griffe.enumerations.ExplanationStyle")
    for m, v in es.class_attrs.items():
        if isinstance(v, ast.Constant):
            ctx.ob("R5", f"style|{m}", bool(prog.lookup_method(base, f"_explain_{v.value}")), f"Breakage._explain_{v.value} exists for ExplanationStyle.{m}", where(prog.lookup_method(base, 'explain')[0]))
    chk = prog.function("_griffe.cli.check")
    cfgc = cfg_of(chk)
    fb = [c for c in calls_in(chk.node) if any(isinstance(x, FunctionInfo) and x.qualname == f"{D}.find_breaking_changes" for x, _k in cg.callees_of_call(chk, c))]
    if len(fb) != 1:
        raise AnalysisError("C11-R5: expected one find_breaking_changes call in cli.check")
    from sa.util import stmt_of

    st = stmt_of(fb[0])
    var = unparse(st.targets[0]) if isinstance(st, ast.Assign) else None
    ctx.ob("R5", key(chk, "breakages-collected"), var is not None, "the result of find_breaking_changes is collected into a list", where(chk, st))
    if var is not None:
        fb_nodes = [n for n in cfgc.live_nodes() if n.stmt is st]
        after = cfgc.reach(fb_nodes, normal_only=True)
        rets = [n for n in after if n.kind == "return"]
        for r in rets:
            v = r.expr.value if isinstance(r.expr, ast.Constant) else None
            if v == 1:
                ok = cfgc.dominated_by_fact(r, lambda a, t: t and unparse(a) == var)
                ctx.ob("R5", key(chk, "exit-1-iff-breakages"), ok, "return 1 after the comparison is reached only when the list is non-empty", where(chk, r.stmt))
            elif v == 0:
                ok = cfgc.dominated_by_fact(r, lambda a, t: not t and unparse(a) == var)
                ctx.ob("R5", key(chk, "exit-0-iff-none"), ok, "return 0 after the comparison is reached only when the list is empty", where(chk, r.stmt))
            else:
                ctx.ob("R5", key(chk, f"exit-other:{norm(r.stmt)}"), False, "unexpected exit code after the comparison", where(chk, r.stmt))
        ctx.expect_min("R5", len(rets), 2)
        printed = False
        for n in walk_no_nested(chk.node):
            if isinstance(n, ast.For) and unparse(n.iter) == var:
                tvn = unparse(n.target)
                printed = any(isinstance(c, ast.Call) and dotted(c.func) == "print" and c.args and f"{tvn}.explain" in unparse(c.args[0]) for c in ast.walk(n))
        ctx.ob("R5", key(chk, "every-breakage-printed"), printed, "every collected breakage is printed through explain()", where(chk))
    # the two (three) loads of the CLI check: old from `against`, new from `base_ref` (git) or the working tree
    loads = []
    for c in calls_in(chk.node):
        tq = {x.qualname for x, _k in cg.callees_of_call(chk, c) if isinstance(x, FunctionInfo)}
        if tq & {"_griffe.loader.load_git", "_griffe.loader.load"}:
            loads.append((c, "git" if "_griffe.loader.load_git" in tq else "tree"))
    ctx.expect_min("R5", len(loads), 3)
    from sa.util import kwarg_deep

    for c, how in loads:
        tgt = unparse(stmt_of(c).targets[0]) if isinstance(stmt_of(c), ast.Assign) else "?"
        ref, unresolved = kwarg_deep(chk, c, "ref")
        if ref is None and unresolved:
            ctx.note("R5: a load in cli.check passes its reference through an unresolved ** mapping; not judged")
            continue
        first = unparse(c.args[0]) if c.args else "?"
        if tgt == unparse(fb[0].args[0]):  # the old package
            ok = how == "git" and ref is not None and unparse(ref) == "against" and first in ("against_path", "package")
            ctx.ob("R5", key(chk, "old-loaded-from-against"), ok, f"old package = load_git({first}, ref={unparse(ref) if ref else None}) (must be the `against` reference)", where(chk, c))
        elif tgt == unparse(fb[0].args[1]):
            if how == "git":
                ok = ref is not None and unparse(ref) == "base_ref" and first == "package"
                ctx.ob("R5", key(chk, "new-loaded-from-base_ref"), ok, f"new package (git) = load_git({first}, ref={unparse(ref) if ref else None}) (must be `base_ref`)", where(chk, c))
            else:
                ctx.ob("R5", key(chk, "new-loaded-from-tree"), first == "package", f"new package (working tree) = load({first})", where(chk, c))
    ctx.rule("R6", "is_public (the frontier predicate of the diff) equals the documented decision table on every abstract state")
    from sa.tables import visibility

    rows = visibility.tabulate(prog, "is_public")
    bad = [(st, g, w) for st, g, w in rows if g != w]
    ipf = prog.lookup_method(prog.cls(visibility.MIXIN), "is_public")[0]
    ctx.ob("R6", f"is_public|table({len(rows)} rows)", not bad, f"is_public equals the documented table on {len(rows)} abstract states" if not bad else
           f"is_public differs from the documented table on {len(bad)} states, e.g. code={bad[0][1]} doc={bad[0][2]} for [{visibility.fmt(bad[0][0])}]", where(ipf),
           {"first_rows": [(visibility.fmt(s_), g, w) for s_, g, w in bad[:5]]})
    ctx.expect_min("R6", len(rows), 400)
    fbc = prog.function(f"{D}.find_breaking_changes")
    deleg = [c for c in calls_in(fbc.node) if any(isinstance(x, FunctionInfo) and x.qualname == mi.qualname for x, _k in cg.callees_of_call(fbc, c))]
    ctx.ob("R5", key(fbc, "delegates-to-member-walk"), len(deleg) == 1 and [unparse(a) for a in deleg[0].args] == fbc.params[:2],
           "find_breaking_changes walks (old, new) in that order", where(fbc))

    # ------------------------------------------------------------------ R7 compatible additions are silent
    ctx.rule("R7", "adding optional parameters in a way that leaves every existing call valid and bound to the same parameters (an optional keyword-only "
                   "parameter anywhere among the keyword-only ones, an optional positional one after the last positional one, *args / **kwargs) "
                   "reports nothing; every old-valid call shape is checked against CPython's binder")
    from sa.rules.C10 import KINDS, Table, _breaking_call, _fmt, _sig  # shared abstract-signature machinery (C10 decides the breaking side)

    tbl = Table(prog)
    olds = [
        (("a", "positional_or_keyword", None),),
        (("a", "positional_only", None), ("b", "positional_or_keyword", "1")),
        (("a", "positional_or_keyword", None), ("x", "keyword_only", "1")),
        (("a", "positional_or_keyword", None), ("x", "keyword_only", None), ("y", "keyword_only", "1")),
        (("a", "positional_or_keyword", None), ("r", "var_positional", None), ("x", "keyword_only", "1")),
        (("x", "keyword_only", "1"), ("k", "var_keyword", None)),
    ]
    n7 = 0
    order = {k: i for i, k in enumerate(KINDS)}
    for old in olds:
        for kind, default in (("keyword_only", "0"), ("positional_or_keyword", "0"), ("var_positional", None), ("var_keyword", None)):
            for pos in range(len(old) + 1):
                new = (*old[:pos], ("new", kind, default), *old[pos:])
                if _sig(new) is None:
                    continue
                # "compatible": positional parameters keep their index, and CPython binds every old-valid call shape
                if any(k in ("positional_only", "positional_or_keyword") for _n, k, _d in old[pos:]) and kind in ("positional_only", "positional_or_keyword"):
                    continue
                if _breaking_call(old, new) is not None:
                    continue
                ys = [y[0] for y in tbl.yields(old, new)]
                n7 += 1
                ctx.ob("R7", f"compatible|{_fmt(old)} -> {_fmt(new)}", not ys,
                       f"{_fmt(old)} -> {_fmt(new)} keeps every existing call valid" + (", nothing reported" if not ys else f", yet {ys} is reported"), where(tbl.fn))
    ctx.expect_min("R7", n7, 20)

    # ------------------------------------------------------------------ R8 every breakage the walk constructs can be explained
    ctx.rule("R8", "Breakage.explain(style) returns for every style, every breakage class and the payloads the walk stores (parameters, kinds, "
                   "expression or string bases, values), also when the reported object is an unresolvable re-export: the report names the alias's "
                   "own public path and never touches its target")
    from pathlib import PurePosixPath

    it8 = Interp(prog)

    def boom(_i, _o):
        raise Raised("AliasResolutionError")

    def tree_obj(path: str, file: str) -> Obj:
        mod = Obj(None, {"path": "pkg", "__closed__": True})
        return Obj(None, {"is_alias": False, "path": path, "canonical_path": path, "module": mod, "lineno": 7, "filepath": PurePosixPath("/w") / file,
                          "relative_filepath": PurePosixPath(file), "relative_package_filepath": PurePosixPath(file), "__closed__": True}, label=path)

    parent = tree_obj("pkg", "pkg/__init__.py")
    proxied = ("filepath", "relative_filepath", "relative_package_filepath", "module", "canonical_path", "lineno", "kind", "final_target", "target")
    objs = {
        "plain": tree_obj("pkg.x", "pkg/__init__.py"),
        "unresolvable alias": Obj(None, {"is_alias": True, "path": "pkg.x", "parent": parent, "alias_lineno": 3, "__closed__": True, **{k: lazy(boom) for k in proxied}}, label="alias"),
    }
    pk = it8.enum_members("_griffe.enumerations.ParameterKind")
    kd = it8.enum_members("_griffe.enumerations.Kind")
    par = lambda: Obj(None, {"name": "a", "kind": pk[0], "default": "1", "required": False, "__closed__": True}, label="param")  # noqa: E731
    expr = lambda n: Obj(None, {"canonical_path": n, "path": n, "__closed__": True}, label=n)  # noqa: E731
    PAYLOADS: dict[str, list[tuple]] = {
        "ParameterMovedBreakage": [(par(), par())], "ParameterRemovedBreakage": [(par(), None)], "ParameterChangedKindBreakage": [(par(), par())],
        "ParameterChangedDefaultBreakage": [(par(), par())], "ParameterChangedRequiredBreakage": [(par(), par())], "ParameterAddedRequiredBreakage": [(None, par())],
        "ReturnChangedTypeBreakage": [("int", "str"), (None, "str")], "ObjectRemovedBreakage": [("self", None)], "ObjectChangedKindBreakage": [(kd[0], kd[1])],
        "AttributeChangedTypeBreakage": [("int", "str")], "AttributeChangedValueBreakage": [("1", "2"), ("1", "unset")],
        "ClassRemovedBaseBreakage": [([expr("pkg.A"), expr("pkg.B")], [expr("pkg.A")]), (["builtins.dict", "builtins.object"], ["builtins.dict"]), ([expr("pkg.A")], [])],
    }
    explain = prog.lookup_method(base, "explain")[0]
    styles = it8.enum_members("_griffe.enumerations.ExplanationStyle")
    n8 = 0
    for c in prog.subclasses(base):
        for pi, (ov, nv) in enumerate(PAYLOADS.get(c.name, [])):
            for oname, o in objs.items():
                b = it8.new(c.qualname, obj=o, old_value=o if ov == "self" else ov, new_value=nv, details="", __closed__=True)
                for st_ in styles:
                    n8 += 1
                    try:
                        out8 = it8.call(explain, b, st_)
                        good, got8 = isinstance(out8, str) and "x" in out8, repr(out8)[:80]
                    except Raised as r:
                        good, got8 = False, f"raises {r.exc}"
                    ctx.ob("R8", f"explain|{c.name}|payload{pi}|{oname}|{st_.name}", good,
                           f"{c.name} against a {oname} object, {st_.name}: the explanation is produced and names the reported path `x`; got {got8}", where(explain))
    ctx.expect_min("R8", n8, 100)
