"""C11 - API diff: silent on compatible change, reports every public removal / re-kinding (structural part).

R1 public frontier (dominance + abstract table), R2 dispatch exhaustiveness (decision table of _type_based_yield),
R3 removal / base / value rules (decision tables), R4 skip-don't-abort (alias dereference discipline in diff.py),
R5 registries and CLI exit code, R6 is_public table, R7 compatible additions, R8 explain() totality table.
"""

from __future__ import annotations

import ast
import itertools

from sa.absint import Interp, Obj, Raised, Sym, lazy
from sa.aliasderef import AliasDeref, catches_both, enclosing_catch
from sa.callgraph import CallGraph
from sa.cfg import implied
from sa.report import Ctx
from sa.srcmodel import AnalysisError, FunctionInfo, Program, dotted, norm, unparse, walk_no_nested
from sa.util import canon_text, calls_in, cfg_of, key, node_index, where

D = "_griffe.diff"


def run(prog: Program, ctx: Ctx) -> None:  # noqa: PLR0912,PLR0915
    cg = CallGraph(prog)
    mi = prog.function(f"{D}._member_incompatibilities")
    tby = prog.functions.get(f"{D}._type_based_yield")
    if tby is None:
        # renamed: the dispatcher is the one function of the module that calls the alias comparison
        cands = [f_ for f_ in prog.functions.values() if f_.module.name == D and f_.cls is None and f_.name != "_alias_incompatibilities"
                 and any(dotted(c_.func) == "_alias_incompatibilities" for c_ in calls_in(f_.node))]
        if len(cands) != 1:
            raise AnalysisError(f"C11: the dispatch function of the comparison (calls _alias_incompatibilities) not found: {[c_.name for c_ in cands]}")
        tby = cands[0]

    # ------------------------------------------------------------------ R1 public frontier
    ctx.rule("R1", "the member walk reports only on public old members, and it walks and looks up through all_members on both sides: a public "
                   "member the old class only inherits is compared, and it is not 'removed' when the new class merely inherits it too")
    # (decided on behaviour, with the member-walk rows below: see "R1 rows")
    itp = Interp(prog)
    K = {k: itp.enum("_griffe.enumerations.Kind", k) for k in ("MODULE", "CLASS", "FUNCTION", "ATTRIBUTE", "ALIAS")}
    ocls = prog.cls("_griffe.models.Object")
    calls: list[tuple[str, tuple]] = []

    def stub(name):
        def f(_i, *a, **_k):
            calls.append((name, a))
            return [Sym(f"<{name}>")]
        return f

    for name in ("_alias_incompatibilities", "_member_incompatibilities", "_class_incompatibilities", "_function_incompatibilities",
                 "_attribute_incompatibilities"):
        itp.stubs[f"{D}.{name}"] = stub(name)

    def member(kind: str, *, alias: bool, path: str, public: bool = True, name: str = "m") -> Obj:
        k = K[kind]
        return Obj(ocls, {
            "name": name, "path": path, "is_alias": alias, "kind": k, "is_public": public,
            "is_module": kind == "MODULE", "is_class": kind == "CLASS", "is_function": kind == "FUNCTION", "is_attribute": kind == "ATTRIBUTE",
        }, label=f"{kind}{'@alias' if alias else ''}")

    ctx.rule("R2", "_type_based_yield decision table over (old alias?, new alias?, old kind, new kind): alias on either side -> alias handler; "
                   "different kinds -> ObjectChangedKindBreakage on the new object; same kind -> that kind's comparison; a path already seen -> nothing")
    handler = {"MODULE": "_member_incompatibilities", "CLASS": "_class_incompatibilities", "FUNCTION": "_function_incompatibilities",
               "ATTRIBUTE": "_attribute_incompatibilities"}
    kinds = ["MODULE", "CLASS", "FUNCTION", "ATTRIBUTE"]

    def seen_kw(f: FunctionInfo) -> str:
        extra = [a.arg for a in (*f.node.args.args[2:], *f.node.args.kwonlyargs)]
        if len(extra) != 1:
            raise AnalysisError(f"C11: cannot identify the visited-set parameter of {f.qualname}")
        return extra[0]

    rows = 0
    for oa, na, ok_, nk in itertools.product((False, True), (False, True), kinds, kinds):
        calls.clear()
        old = member(ok_, alias=oa, path="p.m")
        new = member(nk, alias=na, path="p.m")
        try:
            out = itp.call(tby, old, new, **{seen_kw(tby): set()})
        except Raised as r:
            out = [f"<raised {r.exc}>"]
        rows += 1
        if oa or na:
            want = "alias handler"
            got_ok = [c[0] for c in calls] == ["_alias_incompatibilities"] and calls[0][1][:2] == (old, new)
        elif ok_ != nk:
            want = "ObjectChangedKindBreakage(new, old kind, new kind)"
            got_ok = (not calls and len(out) == 1 and isinstance(out[0], Obj) and out[0].cls is not None and out[0].cls.name == "ObjectChangedKindBreakage"
                      and out[0].attrs.get("obj") is new and out[0].attrs.get("old_value") == K[ok_] and out[0].attrs.get("new_value") == K[nk])
        else:
            want = handler[ok_]
            got_ok = [c[0] for c in calls] == [handler[ok_]] and calls[0][1][:2] == (old, new)
        ctx.ob("R2", f"row|old={'alias ' if oa else ''}{ok_}|new={'alias ' if na else ''}{nk}", got_ok,
               f"old={'alias to ' if oa else ''}{ok_}, new={'alias to ' if na else ''}{nk}: expected {want}; got calls={[c[0] for c in calls]} yields={out}", where(tby))
    # visited-set rows, on behaviour: the same comparison a second time yields nothing (no duplicate reports, no endless recursion through aliases) ...
    seen: set = set()
    b_old, b_new = member("FUNCTION", alias=False, path="p.Base.run"), member("FUNCTION", alias=False, path="p.Base.run")
    calls.clear()
    itp.call(tby, b_old, b_new, **{seen_kw(tby): seen})
    first = [c[0] for c in calls]
    calls.clear()
    out = itp.call(tby, b_old, b_new, **{seen_kw(tby): seen})
    ctx.ob("R2", "row|already-seen", first == ["_function_incompatibilities"] and not out and not calls,
           f"the same pair compared twice: first {first}, second yields {out} calls {[c[0] for c in calls]} (expected nothing the second time)", where(tby))
    # ... but an old object already compared once (Base.run against Base.run) and now reached again through another public member (Worker.run, inherited
    # in the old version) is still compared against what that member is in the new version (an override with another signature)
    saved = itp.stubs.pop(f"{D}._alias_incompatibilities")
    w_old = member("FUNCTION", alias=True, path="p.Worker.run")
    w_old.attrs["target"] = b_old
    w_new = member("FUNCTION", alias=False, path="p.Worker.run")
    calls.clear()
    try:
        itp.call(tby, w_old, w_new, **{seen_kw(tby): seen})
        got_calls: object = [(c[0], c[1][0] is b_old, c[1][1] is w_new) for c in calls]
    except Raised as r:
        got_calls = f"raises {r.exc}"
    itp.stubs[f"{D}._alias_incompatibilities"] = saved
    ctx.ob("R2", "row|seen-object-reached-through-another-member", got_calls == [("_function_incompatibilities", True, True)],
           f"Base.run was compared with Base.run; Worker.run (old: inherited Base.run, new: its own definition) must still be compared: got {got_calls}, "
           "expected one function comparison of (old Base.run, new Worker.run)", where(tby))
    # a change found behind a re-export is reported against a public path of the object (the re-export), not against the private module it lives in
    saved = itp.stubs.pop(f"{D}._alias_incompatibilities")
    t_old, t_new = member("FUNCTION", alias=False, path="p._impl.f", name="f"), member("CLASS", alias=False, path="p._impl.f", name="f")
    r_old, r_new = member("FUNCTION", alias=True, path="p.f", name="f"), member("CLASS", alias=True, path="p.f", name="f")
    r_old.attrs["target"], r_new.attrs["target"] = t_old, t_new
    try:
        out = itp.call(tby, r_old, r_new, **{seen_kw(tby): set()})
        rep = [(o.cls.name, itp.getattr(o.attrs["obj"], "path")) for o in out if isinstance(o, Obj) and o.cls is not None]
    except Raised as r:
        rep = [f"raises {r.exc}"]
    itp.stubs[f"{D}._alias_incompatibilities"] = saved
    ctx.ob("R2", "row|re-export-reported-against-public-path", rep == [("ObjectChangedKindBreakage", "p.f")],
           f"`p.f` re-exports `p._impl.f`, which turned from a function into a class: reported as {rep}; the public path is p.f "
           "(p._impl is private: a report against p._impl.f names something the user never imported)", where(tby))
    ctx.expect_min("R2", rows, 64)

    ctx.rule("R3", "decision tables: a public old member missing on the new side -> exactly one ObjectRemovedBreakage (non-public -> nothing; "
                   "present -> delegated to the type dispatch); fewer and different bases -> ClassRemovedBaseBreakage; attribute value changed -> "
                   "AttributeChangedValueBreakage")
    del itp.stubs[f"{D}._member_incompatibilities"]
    itp.stubs[tby.qualname] = stub("_type_based_yield")
    for public, alias, kind, present in itertools.product((True, False), (False, True), ("MODULE", "FUNCTION"), (True, False)):
        calls.clear()
        m_old = member(kind, alias=alias, path="p.m", public=public)
        m_new = member(kind, alias=False, path="p.m")
        old = Obj(ocls, {"path": "p", "all_members": {"m": m_old}, "members": {"m": m_old}})
        new = Obj(ocls, {"path": "p", "all_members": {"m": m_new} if present else {}, "members": {"m": m_new} if present else {}})
        try:
            out = itp.call(mi, old, new)
        except Raised as r:
            out = [f"<raised {r.exc}>"]
        names = [o.cls.name if isinstance(o, Obj) and o.cls else str(o) for o in out]
        if not public:
            good = not out and not calls
            want = "nothing (not public)"
        elif present:
            good = [c[0] for c in calls] == ["_type_based_yield"] and calls[0][1][:2] == (m_old, m_new)
            want = "delegation to _type_based_yield(old member, new member)"
        else:
            good = names == ["ObjectRemovedBreakage"] and out[0].attrs.get("obj") is m_old
            want = "one ObjectRemovedBreakage on the old member"
        ctx.ob("R3", f"member|public={public}|alias={alias}|{kind}|present={present}", good, f"expected {want}; got yields={names} calls={[c[0] for c in calls]}", where(mi))
    # R1 rows: own and inherited members on both sides
    def holder(own: dict, inherited: dict) -> Obj:
        return Obj(ocls, {"path": "p.C", "members": dict(own), "inherited_members": dict(inherited), "all_members": {**inherited, **own}})

    n_r1 = 0
    for inh_public, new_has in itertools.product((True, False), ("own", "inherited", "absent")):
        calls.clear()
        own_old = member("FUNCTION", alias=False, path="p.C.m", name="m")
        inh_old = member("FUNCTION", alias=True, path="p.C.i", name="i", public=inh_public)
        own_new = member("FUNCTION", alias=False, path="p.C.m", name="m")
        inh_new = member("FUNCTION", alias=new_has == "inherited", path="p.C.i", name="i")
        old = holder({"m": own_old}, {"i": inh_old})
        new = holder({"m": own_new, **({"i": inh_new} if new_has == "own" else {})}, {"i": inh_new} if new_has == "inherited" else {})
        try:
            out = itp.call(mi, old, new)
        except Raised as r:
            out = [f"<raised {r.exc}>"]
        out = [o for o in out if not isinstance(o, Sym)]  # (what the stubbed dispatch returned)
        names = [o.cls.name if isinstance(o, Obj) and o.cls else str(o) for o in out]
        pairs = [(c[0], c[1][0], c[1][1]) for c in calls]
        want_pairs = [("_type_based_yield", own_old, own_new)]
        want_names: list[str] = []
        if inh_public and new_has != "absent":
            want_pairs.append(("_type_based_yield", inh_old, inh_new))
        if inh_public and new_has == "absent":
            want_names = ["ObjectRemovedBreakage"]
        good = sorted(pairs, key=lambda t: t[1].attrs["name"]) == sorted(want_pairs, key=lambda t: t[1].attrs["name"]) and names == want_names and (
            not want_names or out[0].attrs.get("obj") is inh_old)
        n_r1 += 1
        ctx.ob("R1", f"walk|inherited member public={inh_public}|new side: {new_has}", good,
               f"old class defines m and inherits i ({'public' if inh_public else 'not public'}); the new class has i {new_has}: expected comparisons of "
               f"{[t[1].attrs['name'] for t in want_pairs]} and yields {want_names}; got comparisons of {[t[1].attrs['name'] for t in pairs]} and yields {names}", where(mi))
    ctx.expect_min("R1", n_r1, 6)
    # class bases
    ci = prog.function(f"{D}._class_incompatibilities")
    itp.stubs.pop(f"{D}._class_incompatibilities", None)
    itp.stubs.pop(f"{D}._attribute_incompatibilities", None)
    itp.stubs[f"{D}._member_incompatibilities"] = stub("_member_incompatibilities")
    for ob, nb in ((["A", "B"], ["A"]), (["A"], ["A"]), (["A"], ["A", "B"]), (["A", "B"], ["B", "A"]), (["A", "B"], []), (["A"], ["B"])):
        calls.clear()
        out = itp.call(ci, Obj(ocls, {"bases": ob, "path": "p.C"}), Obj(ocls, {"bases": nb, "path": "p.C"}), **{seen_kw(ci): set()})
        names = [o.cls.name for o in out if isinstance(o, Obj) and o.cls]
        want = ["ClassRemovedBaseBreakage"] if (len(nb) < len(ob) and nb != ob) else []
        ctx.ob("R3", f"bases|{ob}->{nb}", names == want and [c[0] for c in calls] == ["_member_incompatibilities"],
               f"bases {ob} -> {nb}: expected {want or 'no base breakage'} and the member walk; got {names}, calls={[c[0] for c in calls]}", where(ci))
    ai = prog.function(f"{D}._attribute_incompatibilities")
    for ov, nv in (("1", "1"), ("1", "2"), ("1", None), (None, "1"), (None, None)):
        out = itp.call(ai, Obj(ocls, {"value": ov}), Obj(ocls, {"value": nv}))
        names = [o.cls.name for o in out if isinstance(o, Obj) and o.cls]
        want = ["AttributeChangedValueBreakage"] if ov != nv else []
        ctx.ob("R3", f"value|{ov}->{nv}", names == want, f"attribute value {ov} -> {nv}: expected {want or 'nothing'}; got {names}", where(ai))

    # ------------------------------------------------------------------ R4 skip, don't abort
    ctx.rule("R4", "no alias error escapes the comparison: in diff.py every dereference of a possibly-alias member is dominated by "
                   "`not x.is_alias`, handled for both AliasResolutionError and CyclicAliasError, or tabled with a reason")
    ad = AliasDeref(prog, cg)
    scope = [f for f in prog.functions.values() if f.module.name == D]
    # keys use canonical names (sa.util.canon_names: parameters p0.., other bound names v0.. by first binding), so renaming variables changes nothing
    # The kind-specific comparisons are private helpers: their dereferences are discharged through their call sites (sa.aliasderef, "caller-guarded":
    # the dispatch calls them only when neither side is an alias).  What the analysis cannot see is the public entry point's own arguments:
    ROOTS = {
        (f"{D}.find_breaking_changes", "old_obj"): "walk root: the two API roots handed to find_breaking_changes are loaded modules / classes (its documented use), not dangling aliases",
        (f"{D}.find_breaking_changes", "new_obj"): "same",
    }
    TABLED = {}
    PARENT = "the reported alias sits in a loaded tree: its parent is the object whose members were walked (a non-alias arm of the dispatch, or the caller's resolved root)"
    for helper, attr in (("_filepath", "filepath"), ("_relative_filepath", "relative_filepath"), ("_relative_package_filepath", "relative_package_filepath"),
                         ("_module_path", "module")):
        TABLED[(f"{D}.Breakage.{helper}", f"self.obj.parent.{attr}")] = PARENT
    sites = ad.scan(scope, TABLED, object_may_be_alias=True, assume=ROOTS)  # in diff.py members typed `Object` are routinely aliases (re-exports)
    # Methods of the Breakage classes: `self.obj` is the reported member (declared `Object`, routinely an alias).  `old_value` / `new_value` are
    # declared `Any`; what the walk stores there (parameters, kinds, expressions, strings) is exercised by the totality table R8 instead of being
    # guessed here from untyped receivers.
    sites = [st for st in sites if st.fn.cls is None or st.receiver == "self.obj" or st.receiver.startswith("self.obj.")]
    for st in sites:
        ctx.ob("R4", key(st.fn, f"deref:{canon_text(st.fn, st.node)}"), st.status != "OPEN",
               f"{st.status}: {st.reason}" if st.status != "OPEN" else st.reason + ": the error would abort find_breaking_changes", where(st.fn, st.node))
    ctx.expect_min("R4", len(sites), 8)
    # (that the kind-specific comparisons - whose parameters are declared Class / Function / Attribute - run only when neither side is an alias is
    # decided on behaviour by the R2 table: every row with an alias on either side must reach the alias handler and nothing else)
    # ------------------------------------------------------------------ R5 registries and exit code
    ctx.rule("R5", "each BreakageKind has exactly one Breakage subclass; each ExplanationStyle has an _explain_<value> method; the CLI check "
                   "prints every breakage and returns 1 exactly when the list is non-empty")
    bk = prog.cls("_griffe.enumerations.BreakageKind")
    members = [m for m, v in bk.class_attrs.items() if isinstance(v, ast.Constant)]
    base = prog.cls(f"{D}.Breakage")
    by_kind: dict[str, list[str]] = {}
    for c in prog.subclasses(base):
        v = c.class_attrs.get("kind")
        if v is not None and (dotted(v) or "").startswith("BreakageKind."):
            by_kind.setdefault((dotted(v) or "").split(".")[-1], []).append(c.name)
    for m in members:
        ctx.ob("R5", f"kind|{m}", len(by_kind.get(m, [])) == 1, f"BreakageKind.{m} has subclasses {by_kind.get(m, [])} (exactly one expected)", f"{bk.module.relpath}:{bk.node.lineno}")
    ctx.expect_min("R5", len(members), 12)
    es = prog.cls("_griffe.enumerations.ExplanationStyle")
    for m, v in es.class_attrs.items():
        if isinstance(v, ast.Constant):
            ctx.ob("R5", f"style|{m}", bool(prog.lookup_method(base, f"_explain_{v.value}")), f"Breakage._explain_{v.value} exists for ExplanationStyle.{m}", where(prog.lookup_method(base, 'explain')[0]))
    chk = prog.function("_griffe.cli.check")
    # the CLI check, on behaviour: evaluated with the loaders, git helpers, the comparison, explain(), colorama, the environment and print replaced by
    # recording stand-ins.  Rows: number of breakages x new side from a git reference or from the working tree x explicit or latest-tag old reference.
    n5 = 0
    bcls = prog.cls(f"{D}.Breakage")
    for n_br, base_ref, against in itertools.product((0, 1, 2), (None, "feature"), (None, "v0")):
        it5 = Interp(prog)
        log: list[tuple[str, tuple, dict]] = []

        def rec(name, ret, log=log):
            def f(_i, *a, **k):
                log.append((name, a, k))
                return ret(a, k) if callable(ret) else ret
            return f

        old_pkg, new_git, new_tree = (Obj(None, {"__closed__": True}, label=x) for x in ("old package", "new package (git)", "new package (tree)"))
        brs = [Obj(bcls, {"__closed__": True}, label=f"breakage{i}") for i in range(n_br)]
        it5.stubs["_griffe.git.get_latest_tag"] = rec("get_latest_tag", "latest-tag")
        it5.stubs["_griffe.git.get_repo_root"] = rec("get_repo_root", "/repo-root")
        it5.stubs["_griffe.extensions.base.load_extensions"] = rec("load_extensions", Sym("<extensions>"))
        it5.stubs["_griffe.loader.load_git"] = rec("load_git", lambda a_, k_, o=old_pkg, g=new_git, ag=against: o if k_.get("ref") == (ag or "latest-tag") else g)
        it5.stubs["_griffe.loader.load"] = rec("load", new_tree)
        it5.stubs[f"{D}.find_breaking_changes"] = rec("find_breaking_changes", lambda _a, _k, brs=brs: iter(list(brs)))
        it5.stubs[f"{D}.Breakage.explain"] = rec("explain", lambda a_, _k: f"explanation of {a_[0].label}")
        for ext in ("colorama.deinit", "colorama.init", "os.getenv", "builtins.print"):
            it5.ext_handlers[ext] = rec(ext.split(".")[-1], None)
        try:
            rc: object = it5.call(chk, "pkg", against, None, base_ref=base_ref)
        except Raised as r:
            rc = f"raises {r.exc}"
        n5 += 1
        row = f"cli|breakages={n_br}|base_ref={base_ref}|against={against}"
        printed = [c[1][0] for c in log if c[0] == "print" and c[1]]
        cmp_calls = [c for c in log if c[0] == "find_breaking_changes"]
        new_want = new_git if base_ref else new_tree
        loads = [(c[0], c[1][0] if c[1] else None, c[2].get("ref")) for c in log if c[0] in ("load_git", "load")]
        want_loads = [("load_git", "pkg", against or "latest-tag"), ("load_git", "pkg", base_ref) if base_ref else ("load", "pkg", None)]
        ctx.ob("R5", row + "|exit-code", rc == (1 if n_br else 0), f"{n_br} breakage(s): exit code {rc} (1 exactly when there is at least one)", where(chk))
        ctx.ob("R5", row + "|printed", printed == [f"explanation of breakage{i}" for i in range(n_br)],
               f"every breakage is explained and printed once, in order: printed {printed}", where(chk))
        ctx.ob("R5", row + "|sides", sorted(loads, key=str) == sorted(want_loads, key=str) and len(cmp_calls) == 1 and cmp_calls[0][1][:2] == (old_pkg, new_want),
               f"old = load_git(package, ref=`against` or the latest tag), new = {'load_git(package, ref=base_ref)' if base_ref else 'load(package) from the working tree'}, "
               f"compared as (old, new): loads {loads}, comparison on {[x.label if isinstance(x, Obj) else x for x in (cmp_calls[0][1][:2] if cmp_calls else ())]}", where(chk))
    ctx.expect_min("R5", n5, 12)
    fbc = prog.function(f"{D}.find_breaking_changes")
    it5 = Interp(prog)
    seen_calls: list[tuple] = []
    it5.stubs[mi.qualname] = lambda _i, *a_, **_k: (seen_calls.append(a_), [])[1]
    r_old, r_new = Obj(None, {"__closed__": True}, label="old root"), Obj(None, {"__closed__": True}, label="new root")
    try:
        list(it5.call(fbc, r_old, r_new) or [])
    except Raised:
        pass
    ctx.ob("R5", key(fbc, "delegates-to-member-walk"), len(seen_calls) == 1 and seen_calls[0][:2] == (r_old, r_new),
           "find_breaking_changes walks (old, new) in that order", where(fbc))
    ctx.rule("R6", "is_public (the frontier predicate of the diff) equals the documented decision table on every abstract state")
    from sa.tables import visibility

    rows = visibility.tabulate(prog, "is_public")
    bad = [(st, g, w) for st, g, w in rows if g != w]
    ipf = prog.lookup_method(prog.cls(visibility.MIXIN), "is_public")[0]
    ctx.ob("R6", f"is_public|table({len(rows)} rows)", not bad, f"is_public equals the documented table on {len(rows)} abstract states" if not bad else
           f"is_public differs from the documented table on {len(bad)} states, e.g. code={bad[0][1]} doc={bad[0][2]} for [{visibility.fmt(bad[0][0])}]", where(ipf),
           {"first_rows": [(visibility.fmt(s_), g, w) for s_, g, w in bad[:5]]})
    ctx.expect_min("R6", len(rows), 400)

    # ------------------------------------------------------------------ R7 compatible additions are silent
    ctx.rule("R7", "adding optional parameters in a way that leaves every existing call valid and bound to the same parameters (an optional keyword-only "
                   "parameter anywhere among the keyword-only ones, an optional positional one after the last positional one, *args / **kwargs) "
                   "reports nothing; every old-valid call shape is checked against CPython's binder")
    from sa.rules.C10 import KINDS, Table, _breaking_call, _fmt, _sig  # shared abstract-signature machinery (C10 decides the breaking side)

    tbl = Table(prog)
    olds = [
        (("a", "positional_or_keyword", None),),
        (("a", "positional_only", None), ("b", "positional_or_keyword", "1")),
        (("a", "positional_or_keyword", None), ("x", "keyword_only", "1")),
        (("a", "positional_or_keyword", None), ("x", "keyword_only", None), ("y", "keyword_only", "1")),
        (("a", "positional_or_keyword", None), ("r", "var_positional", None), ("x", "keyword_only", "1")),
        (("x", "keyword_only", "1"), ("k", "var_keyword", None)),
    ]
    n7 = 0
    order = {k: i for i, k in enumerate(KINDS)}
    for old in olds:
        for kind, default in (("keyword_only", "0"), ("positional_or_keyword", "0"), ("var_positional", None), ("var_keyword", None)):
            for pos in range(len(old) + 1):
                new = (*old[:pos], ("new", kind, default), *old[pos:])
                if _sig(new) is None:
                    continue
                # "compatible": positional parameters keep their index, and CPython binds every old-valid call shape
                if any(k in ("positional_only", "positional_or_keyword") for _n, k, _d in old[pos:]) and kind in ("positional_only", "positional_or_keyword"):
                    continue
                if _breaking_call(old, new) is not None:
                    continue
                ys = [y[0] for y in tbl.yields(old, new)]
                n7 += 1
                ctx.ob("R7", f"compatible|{_fmt(old)} -> {_fmt(new)}", not ys,
                       f"{_fmt(old)} -> {_fmt(new)} keeps every existing call valid" + (", nothing reported" if not ys else f", yet {ys} is reported"), where(tbl.fn))
    ctx.expect_min("R7", n7, 20)

    # ------------------------------------------------------------------ R8 every breakage the walk constructs can be explained
    ctx.rule("R8", "Breakage.explain(style) returns for every style, every breakage class and the payloads the walk stores (parameters, kinds, "
                   "expression or string bases, values), also when the reported object is an unresolvable re-export: the report names the alias's "
                   "own public path and never touches its target")
    from pathlib import PurePosixPath

    it8 = Interp(prog)

    def boom(_i, _o):
        raise Raised("AliasResolutionError")

    def tree_obj(path: str, file: str) -> Obj:
        mod = Obj(None, {"path": "pkg", "__closed__": True})
        return Obj(None, {"is_alias": False, "path": path, "canonical_path": path, "module": mod, "lineno": 7, "filepath": PurePosixPath("/w") / file,
                          "relative_filepath": PurePosixPath(file), "relative_package_filepath": PurePosixPath(file), "__closed__": True}, label=path)

    parent = tree_obj("pkg", "pkg/__init__.py")
    proxied = ("filepath", "relative_filepath", "relative_package_filepath", "module", "canonical_path", "lineno", "kind", "final_target", "target")
    objs = {
        "plain": tree_obj("pkg.x", "pkg/__init__.py"),
        "unresolvable alias": Obj(None, {"is_alias": True, "path": "pkg.x", "parent": parent, "alias_lineno": 3, "__closed__": True, **{k: lazy(boom) for k in proxied}}, label="alias"),
    }
    pk = it8.enum_members("_griffe.enumerations.ParameterKind")
    kd = it8.enum_members("_griffe.enumerations.Kind")
    par = lambda: Obj(None, {"name": "a", "kind": pk[0], "default": "1", "required": False, "__closed__": True}, label="param")  # noqa: E731
    expr = lambda n: Obj(None, {"canonical_path": n, "path": n, "__closed__": True}, label=n)  # noqa: E731
    PAYLOADS: dict[str, list[tuple]] = {
        "ParameterMovedBreakage": [(par(), par())], "ParameterRemovedBreakage": [(par(), None)], "ParameterChangedKindBreakage": [(par(), par())],
        "ParameterChangedDefaultBreakage": [(par(), par())], "ParameterChangedRequiredBreakage": [(par(), par())], "ParameterAddedRequiredBreakage": [(None, par())],
        "ReturnChangedTypeBreakage": [("int", "str"), (None, "str")], "ObjectRemovedBreakage": [("self", None)], "ObjectChangedKindBreakage": [(kd[0], kd[1])],
        "AttributeChangedTypeBreakage": [("int", "str")], "AttributeChangedValueBreakage": [("1", "2"), ("1", "unset")],
        "ClassRemovedBaseBreakage": [([expr("pkg.A"), expr("pkg.B")], [expr("pkg.A")]), (["builtins.dict", "builtins.object"], ["builtins.dict"]), ([expr("pkg.A")], [])],
    }
    explain = prog.lookup_method(base, "explain")[0]
    styles = it8.enum_members("_griffe.enumerations.ExplanationStyle")
    n8 = 0
    for c in prog.subclasses(base):
        for pi, (ov, nv) in enumerate(PAYLOADS.get(c.name, [])):
            for oname, o in objs.items():
                b = it8.new(c.qualname, obj=o, old_value=o if ov == "self" else ov, new_value=nv, details="", __closed__=True)
                for st_ in styles:
                    n8 += 1
                    try:
                        out8 = it8.call(explain, b, st_)
                        good, got8 = isinstance(out8, str) and "x" in out8, repr(out8)[:80]
                    except Raised as r:
                        good, got8 = False, f"raises {r.exc}"
                    ctx.ob("R8", f"explain|{c.name}|payload{pi}|{oname}|{st_.name}", good,
                           f"{c.name} against a {oname} object, {st_.name}: the explanation is produced and names the reported path `x`; got {got8}", where(explain))
    ctx.expect_min("R8", n8, 100)
