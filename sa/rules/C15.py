"""C15 - Static loading never executes analysed code; interpreter state is restored.

R1 sink inventory (effect ownership), R2 guarded reachability under allow_inspection=force_inspection=False
(constant propagation + call graph), R3 sys.path typestate, R4 failure mapping.
"""

from __future__ import annotations

import ast

from sa.callgraph import CallGraph, Edge, fmt_path
from sa.cfg import handler_types
from sa.reach import guarded_reachable
from sa.report import Ctx
from sa.srcmodel import AnalysisError, FunctionInfo, Program, ancestors, dotted, norm, parent, unparse, walk_no_nested
from sa.util import calls_in, cfg_nodes_containing, cfg_of, ext_callee, key, kwarg, kwarg_deep, path_text, stmt_of, stores_of, where

EXCLUDED_MODULES = {"_griffe.tests": "test-helper module shipped in the package (touches sys.modules on purpose)"}

# code-executing callees: exact dotted names and attribute names
EXEC_NAMES = {
    "exec", "eval", "__import__", "execfile", "importlib.import_module", "importlib.__import__", "importlib.reload",
    "runpy.run_module", "runpy.run_path", "pkgutil.walk_packages", "imp.load_module", "imp.load_source",
    "code.interact", "pickle.load", "pickle.loads", "marshal.loads", "marshal.load", "pydoc.locate", "pydoc.importfile",
    "pkgutil.resolve_name", "pkgutil.get_loader", "importlib.util.find_spec", "pkgutil.find_loader",
}  # fmt: skip
EXEC_ATTRS = {"exec_module", "load_module", "import_module", "run_module", "run_path", "create_module"}

# tabled owners: (function, callee) -> reason
ALLOWED_SINKS = {
    ("_griffe.importer.dynamic_import", "importlib.import_module"): "the one importer; reachable only under inspection (R2)",
    ("_griffe.extensions.base._load_extension_path", "exec_module"): "loads the *user's own extension file*, never the analysed package",
}
# the extension-loading family is cut from R2 with this reason
EXTENSION_LOADERS = {
    "_griffe.extensions.base._load_extension": "imports extension modules named by the caller (default: griffe's own dataclasses "
    "extension), never the analysed package",
    "_griffe.extensions.base._load_extension_path": "same",
}
FLAGS = ("allow_inspection", "force_inspection")


def _is_exec(name: str | None, call: ast.Call) -> str | None:
    if name in EXEC_NAMES:
        return name
    if isinstance(call.func, ast.Attribute) and call.func.attr in EXEC_ATTRS:
        return call.func.attr
    if isinstance(call.func, ast.Name) and call.func.id in ("exec", "eval", "__import__"):
        return call.func.id
    return None


def run(prog: Program, ctx: Ctx) -> None:  # noqa: PLR0912,PLR0915
    cg = CallGraph(prog)

    # ------------------------------------------------------------------ R1 sink inventory
    ctx.rule("R1", "code-executing sinks (import_module, exec/eval/__import__, exec_module, runpy, walk_packages, unpickling) exist "
                   "only at the tabled owner sites; every compile() is PyCF_ONLY_AST")
    n_sinks = n_compile = 0
    all_calls: list[tuple[FunctionInfo | None, object, ast.Call]] = []
    for fn in prog.functions.values():
        if fn.module.name in EXCLUDED_MODULES:
            continue
        for call in calls_in(fn.node):
            all_calls.append((fn, fn.module, call))
    for mod in prog.modules.values():
        if mod.name in EXCLUDED_MODULES:
            continue
        for stmt in mod.tree.body:
            if not isinstance(stmt, (ast.FunctionDef, ast.AsyncFunctionDef, ast.ClassDef)):
                for call in calls_in(stmt):
                    all_calls.append((None, mod, call))
        for cls in mod.classes.values():
            for stmt in cls.node.body:
                if not isinstance(stmt, (ast.FunctionDef, ast.AsyncFunctionDef, ast.ClassDef)):
                    for call in calls_in(stmt):
                        all_calls.append((None, mod, call))
    for fn, mod, call in all_calls:
        name = ext_callee(prog, mod, call)
        q = fn.qualname if fn else mod.name
        loc = f"{mod.relpath}:{call.lineno}"
        sink = _is_exec(name, call)
        if sink:
            n_sinks += 1
            ok = (q, sink) in ALLOWED_SINKS
            why = ALLOWED_SINKS.get((q, sink))
            if not ok and fn is not None:
                # a private helper every call site of which lies in the tabled owner (the call was moved out of it, not opened to others)
                from sa.util import private_call_sites

                def owners_of(f_: FunctionInfo, stack: tuple = ()) -> set[str] | None:
                    if (f_.qualname, sink) in ALLOWED_SINKS:
                        return {f_.qualname}
                    sites = private_call_sites(prog, f_) if f_.qualname not in stack else []
                    if not sites:
                        return None
                    out: set[str] = set()
                    for g_, _c in sites:
                        o_ = owners_of(g_, (*stack, f_.qualname))
                        if o_ is None:
                            return None
                        out |= o_
                    return out

                owners = owners_of(fn)
                if owners:
                    ok = True
                    why = f"private helper of {sorted(owners)[0].split('.')[-1]} (every call site lies there): " + ALLOWED_SINKS[(sorted(owners)[0], sink)]
            ctx.ob("R1", f"{q}|{sink}", ok, why or f"code-executing call `{norm(call)}` outside the tabled owners", loc)
        if name == "compile" or (isinstance(call.func, ast.Name) and call.func.id == "compile"):
            n_compile += 1
            flags = kwarg(call, "flags") or (call.args[3] if len(call.args) > 3 else None)
            only_ast = flags is not None and any(
                (isinstance(n, ast.Attribute) and n.attr == "PyCF_ONLY_AST") or (isinstance(n, ast.Name) and n.id == "PyCF_ONLY_AST")
                for n in ast.walk(flags)
            )
            ctx.ob("R1", f"{q}|compile:{norm(call.args[0]) if call.args else ''}", only_ast,
                   "compile() carries PyCF_ONLY_AST (yields an AST, no code object)", loc)
    ctx.expect_min("R1", n_sinks, 2)
    ctx.expect_min("R1", n_compile, 3)
    ctx.analysed["call_sites_scanned"] = len(all_calls)

    # ------------------------------------------------------------------ R2 guarded reachability
    ctx.rule("R2", "with allow_inspection=False and force_inspection=False no call path from the loader entry points reaches "
                   "dynamic_import / inspect / any code-executing sink (constant propagation prunes the guarded branches); the flags "
                   "are written once from the constructor parameters and forwarded unchanged by every wrapper")
    loader_cls = prog.cls("_griffe.loader.GriffeLoader")
    entry_names = ["load", "resolve_aliases", "expand_exports", "expand_wildcards", "resolve_module_aliases", "_post_load"]
    roots = []
    for n in entry_names:
        ms = loader_cls.methods.get(n)
        if not ms:
            raise AnalysisError(f"C15: loader entry point GriffeLoader.{n} vanished")
        roots += ms
    facts = {f"self.{f}": False for f in FLAGS}

    def facts_for(fn: FunctionInfo) -> dict[str, bool]:
        if fn.cls is not None and loader_cls in prog.mro(fn.cls):
            return facts
        return {}

    def cut(e: Edge) -> bool:
        return isinstance(e.callee, FunctionInfo) and e.callee.qualname in EXTENSION_LOADERS

    seen, ext = guarded_reachable(cg, roots, facts_for, cut)
    ctx.analysed["R2_functions_reached"] = len(seen)
    sink_fns = {"_griffe.importer.dynamic_import", "_griffe.agents.inspector.inspect", "_griffe.importer.sys_path"}
    inspector_cls = prog.cls("_griffe.agents.inspector.Inspector")
    for q in seen:
        f = prog.functions[q]
        if f.cls is inspector_cls:
            sink_fns.add(q)
    hits = [q for q in seen if q in sink_fns]
    for q in sorted(sink_fns & set(seen)):
        ctx.ob("R2", f"reach|{q}", False, f"{q} is reachable with inspection disallowed", where(prog.functions[q]),
               {"path": fmt_path(prog, seen[q])})
    ext_hits = 0
    for path, e in ext:
        sink = _is_exec(e.callee if isinstance(e.callee, str) else None, e.site) if isinstance(e.site, ast.Call) else None
        if sink:
            ext_hits += 1
            ctx.ob("R2", f"reach|{e.caller.qualname}|{sink}", False, f"code-executing call {sink} reachable with inspection disallowed",
                   where(e.caller, e.site), {"path": fmt_path(prog, [*path, e])})
    if not hits and not ext_hits:
        ctx.ob("R2", "reach|no-sink", True, f"no sink among the {len(seen)} functions reachable from {len(roots)} loader entry points "
               "under the assumed flags", where(roots[0]))
    # positive control: without the assumption the sinks ARE reachable (so the rule is not vacuous)
    seen_free, _ = guarded_reachable(cg, roots, lambda _f: {}, cut)
    ctx.ob("R2", "control|sinks-reachable-without-assumption", "_griffe.importer.dynamic_import" in seen_free
           and "_griffe.agents.inspector.inspect" in seen_free,
           "positive control: with the flags unconstrained, dynamic_import and inspect are reachable from the same entry points "
           "(the pruning, not a hole in the call graph, is what makes R2 pass)", where(roots[0]))
    guarded_edges = sorted(set(seen_free) - set(seen))
    ctx.analysed["R2_functions_pruned_by_flags"] = len(guarded_edges)
    ctx.expect_min("R2", len(guarded_edges), 3)
    # the compiled-module arm raises instead of importing
    lmp = [f for f in loader_cls.methods.values() for f in f]
    # flags: single writer
    for flag in FLAGS:
        writers = []
        for fn in prog.functions.values():
            if fn.module.name in EXCLUDED_MODULES:
                continue
            for n in walk_no_nested(fn.node):
                if isinstance(n, ast.Attribute) and isinstance(n.ctx, (ast.Store, ast.Del)) and n.attr == flag:
                    writers.append((fn, n))
                if isinstance(n, ast.Call) and isinstance(n.func, ast.Name) and n.func.id == "setattr" and len(n.args) >= 2 \
                        and isinstance(n.args[1], ast.Constant) and n.args[1].value == flag:
                    writers.append((fn, n))
        for fn, n in writers:
            st = stmt_of(n)
            ok = (fn.cls is loader_cls and fn.name == "__init__" and isinstance(st, (ast.Assign, ast.AnnAssign))
                  and isinstance(st.value, ast.Name) and st.value.id == flag and flag in fn.params
                  and not stores_of(fn.node, flag))
            ctx.ob("R2", f"flag-writer|{fn.qualname}|{flag}", ok,
                   f"`{flag}` is stored once, from the constructor parameter, unmodified", where(fn, n))
        ctx.expect_min("R2", len(writers), 1)
    # wrappers forward the flags unchanged
    n_fw = 0
    for fn in prog.functions.values():
        if fn.module.name in EXCLUDED_MODULES:
            continue
        own = [f for f in FLAGS if f in fn.params]
        if not own:
            continue
        for call in calls_in(fn.node):
            targets = [c for c, _k in cg.callees_of_call(fn, call) if isinstance(c, FunctionInfo)]
            accepting = [t for t in targets if any(f in t.params for f in FLAGS)]
            if not accepting:
                continue
            for flag in own:
                if not any(flag in t.params for t in accepting):
                    continue
                n_fw += 1
                v, unresolved = kwarg_deep(fn, call, flag)
                if v is None and unresolved:
                    ctx.note(f"R2: {fn.qualname} forwards keyword arguments through an unresolved ** mapping; `{flag}` forwarding not judged")
                    continue
                ok = isinstance(v, ast.Name) and v.id == flag and not stores_of(fn.node, flag)
                ctx.ob("R2", f"forward|{fn.qualname}->{accepting[0].qualname}|{flag}", ok,
                       f"{fn.name} forwards its `{flag}` parameter unchanged", where(fn, call))
    ctx.expect_min("R2", n_fw, 8)
    # extension loading inside loader/agents takes no package-derived argument
    for fn in prog.functions.values():
        if fn.module.name not in ("_griffe.loader", "_griffe.agents.visitor", "_griffe.agents.inspector"):
            continue
        for call in calls_in(fn.node):
            if any(isinstance(c, FunctionInfo) and c.qualname == "_griffe.extensions.base.load_extensions" for c, _k in cg.callees_of_call(fn, call)):
                ctx.ob("R2", key(fn, "load_extensions()"), not call.args and not call.keywords,
                       "default extensions are loaded without arguments (nothing derived from the analysed package is imported)", where(fn, call))
    # builtin extension table expands inside griffe's own namespace
    le = prog.function("_griffe.extensions.base._load_extension")
    ok = any(isinstance(n, ast.JoinedStr) and n.values and isinstance(n.values[0], ast.Constant)
             and str(n.values[0].value).startswith("_griffe.extensions.") for n in ast.walk(le.node))
    ctx.ob("R2", key(le, "builtin-namespace"), ok, "built-in extension names expand to `_griffe.extensions.<name>`", where(le))

    # ------------------------------------------------------------------ R3 sys.path / sys.modules typestate
    ctx.rule("R3", "sys.path is stored only inside the save/replace/restore context manager: the old object is saved first and the "
                   "restoring store runs on every exit after the replacing store; import_module and the getattr walk run inside it; "
                   "sys.modules is written only by the extension-file loader")
    MUT = {"append", "insert", "extend", "remove", "pop", "clear", "sort", "reverse", "__setitem__", "__delitem__", "__iadd__"}
    path_writes: list[tuple[FunctionInfo | None, object, ast.AST, str]] = []
    mod_writes: list[tuple[FunctionInfo | None, object, ast.AST]] = []
    for mod in prog.modules.values():
        if mod.name in EXCLUDED_MODULES:
            continue
        for n in ast.walk(mod.tree):
            tgt = None
            if isinstance(n, (ast.Attribute, ast.Subscript)) and isinstance(n.ctx, (ast.Store, ast.Del)):
                base = n.value if isinstance(n, ast.Subscript) else n
                name = prog.resolve(mod, dotted(base) or "") if dotted(base) else None
                tgt = name
                kind = "store"
            elif isinstance(n, ast.Call) and isinstance(n.func, ast.Attribute) and n.func.attr in MUT:
                name = prog.resolve(mod, dotted(n.func.value) or "") if dotted(n.func.value) else None
                tgt = name
                kind = f"call .{n.func.attr}"
            elif isinstance(n, ast.AugAssign):
                name = prog.resolve(mod, dotted(n.target) or "") if dotted(n.target) else None
                tgt = name
                kind = "augassign"
            if tgt == "sys.path":
                path_writes.append((prog.fn_containing(n), mod, n, kind))
            elif tgt == "sys.modules":
                mod_writes.append((prog.fn_containing(n), mod, n))
    # aliases: a local name that may hold the sys.path object itself (`x = sys.path`, `x = given or sys.path`, `x = a if c else sys.path`)
    def may_be_sys_path(mod, e: ast.AST) -> bool:
        if isinstance(e, (ast.Attribute, ast.Name)):
            return bool(dotted(e)) and prog.resolve(mod, dotted(e) or "") == "sys.path"
        if isinstance(e, ast.IfExp):
            return may_be_sys_path(mod, e.body) or may_be_sys_path(mod, e.orelse)
        if isinstance(e, ast.BoolOp):
            return any(may_be_sys_path(mod, v) for v in e.values)
        if isinstance(e, ast.NamedExpr):
            return may_be_sys_path(mod, e.value)
        return False

    n_alias = 0
    for fn in prog.functions.values():
        if fn.module.name in EXCLUDED_MODULES:
            continue
        aliases = {t.id for st in walk_no_nested(fn.node) if isinstance(st, ast.Assign) and may_be_sys_path(fn.module, st.value) for t in st.targets if isinstance(t, ast.Name)}
        aliases |= {st.target.id for st in walk_no_nested(fn.node) if isinstance(st, ast.AnnAssign) and st.value is not None and isinstance(st.target, ast.Name) and may_be_sys_path(fn.module, st.value)}
        for a in aliases:
            n_alias += 1
            for n in walk_no_nested(fn.node):
                hit = None
                if isinstance(n, ast.Call) and isinstance(n.func, ast.Attribute) and n.func.attr in MUT and isinstance(n.func.value, ast.Name) and n.func.value.id == a:
                    hit = f"call .{n.func.attr}"
                elif isinstance(n, ast.Subscript) and isinstance(n.ctx, (ast.Store, ast.Del)) and isinstance(n.value, ast.Name) and n.value.id == a:
                    hit = "item store"
                elif isinstance(n, ast.AugAssign) and isinstance(n.target, ast.Name) and n.target.id == a:
                    hit = "augmented assignment"
                if hit:
                    ctx.ob("R3", key(fn, f"alias-mutation:{norm(stmt_of(n))}"), False,
                           f"`{a}` may be the sys.path object itself (bound from an expression that can evaluate to sys.path): {hit} changes the interpreter's "
                           "search path in place, and the save/restore context manager restores that same, modified list", where(fn, n))
    ctx.analysed["sys_path_aliases"] = n_alias
    ctx.expect_min("R3", len(path_writes), 2)
    for fn, mod, n, kind in path_writes:
        loc = f"{mod.relpath}:{n.lineno}"
        if fn is None or not (fn.is_contextmanager and fn.is_generator):
            ctx.ob("R3", f"{fn.qualname if fn else mod.name}|{norm(stmt_of(n))}", False,
                   f"sys.path {kind} outside a save/restore context manager", loc)
            continue
        st = stmt_of(n)
        cfg = cfg_of(fn)
        if not (isinstance(st, ast.Assign) and isinstance(n, ast.Attribute)):
            ctx.ob("R3", key(fn, st), False, f"sys.path mutated in place ({kind}); only whole-object save/replace/restore is accepted", loc)
            continue
        # classify: restoring store `sys.path = saved` where saved = sys.path earlier
        def saved_name(s: ast.Assign) -> str | None:
            if isinstance(s.value, ast.Name):
                defs = [d for d in stores_of(fn.node, s.value.id) if isinstance(d, ast.Assign)]
                if len(defs) == 1 and prog.resolve(fn.module, dotted(defs[0].value) or "") == "sys.path":
                    return s.value.id
            return None

        if saved_name(st):
            continue  # a restoring store; checked from the replacing side
        snodes = [x for x in cfg.live_nodes() if x.stmt is st]

        def is_restore(x):
            return x.kind == "stmt" and isinstance(x.stmt, ast.Assign) and any(
                isinstance(t, ast.Attribute) and prog.resolve(fn.module, dotted(t) or "") == "sys.path" for t in x.stmt.targets
            ) and saved_name(x.stmt) is not None

        def is_save(x):
            return x.kind == "stmt" and isinstance(x.stmt, ast.Assign) and isinstance(x.stmt.value, ast.Attribute) \
                and prog.resolve(fn.module, dotted(x.stmt.value) or "") == "sys.path"

        for s in snodes:
            starts = [b for b, label in cfg.succ[s] if label != "exc"]
            leak = cfg.reach(starts, avoid=is_restore) & {cfg.exit, cfg.raise_exit}
            wit = cfg.witness_path(s, leak, avoid=is_restore) if leak else None
            ctx.ob("R3", key(fn, "restore-on-every-exit"), not leak,
                   "after sys.path is replaced every exit (return, exception thrown into the generator, GeneratorExit) passes the restoring store"
                   if not leak else "a path leaves the context manager with sys.path still replaced", loc, {"path": path_text(wit)})
            ctx.ob("R3", key(fn, "saved-before-replace"), cfg.dominated_by_node(s, is_save),
                   "the old sys.path object is saved on every path before it is replaced", loc)
    for fn, mod, n in mod_writes:
        q = fn.qualname if fn else mod.name
        ctx.ob("R3", f"{q}|sys.modules", q in EXTENSION_LOADERS, "sys.modules is written only while loading a user extension file",
               f"{mod.relpath}:{n.lineno}")
    # import_module + getattr walk inside `with sys_path(...)`
    owners = {fn.qualname for fn, _m, _n, _k in path_writes if fn is not None}
    di = prog.function("_griffe.importer.dynamic_import")
    for call in calls_in(di.node):
        name = ext_callee(prog, di.module, call)
        if name == "importlib.import_module" or (isinstance(call.func, ast.Name) and call.func.id == "getattr"):
            inside = False
            for anc in ancestors(call):
                if isinstance(anc, ast.With):
                    for item in anc.items:
                        if isinstance(item.context_expr, ast.Call) and any(
                            isinstance(c, FunctionInfo) and c.qualname in owners for c, _k in cg.callees_of_call(di, item.context_expr)
                        ):
                            inside = True
            ctx.ob("R3", key(di, f"inside-sys_path:{norm(call)}"), inside, "imports and attribute walks run under the temporary sys.path", where(di, call))

    # ------------------------------------------------------------------ R4 failure mapping
    ctx.rule("R4", "dynamic_import lets only ImportError escape (BaseException caught around import and attribute access); "
                   "_inspect_module converts SystemExit; _load_module converts SyntaxError/ImportError/UnicodeDecodeError/OSError to "
                   "LoadingError; recursive external loads are wrapped in handlers for ImportError and LoadingError")

    def enclosing_handlers(node: ast.AST) -> list[ast.ExceptHandler]:
        out = []
        child = node
        for anc in ancestors(node):
            if isinstance(anc, ast.Try) and any(child is s or any(child is x for x in ast.walk(s)) for s in anc.body):
                out += anc.handlers
            child = anc
        return out

    for call in calls_in(di.node):
        name = ext_callee(prog, di.module, call)
        if name == "importlib.import_module" or (isinstance(call.func, ast.Name) and call.func.id == "getattr"):
            hs = enclosing_handlers(call)
            catches = any(h.type is None or "BaseException" in (handler_types(h) or []) for h in hs)
            ctx.ob("R4", key(di, f"BaseException:{norm(call)}"), catches,
                   "import / attribute access of analysed code is wrapped in `except BaseException`", where(di, call))
            for h in hs:
                if h.type is None or "BaseException" in (handler_types(h) or []):
                    raises = [r for r in ast.walk(h) if isinstance(r, ast.Raise)]
                    ok = all(r.exc is not None and (dotted(r.exc.func) if isinstance(r.exc, ast.Call) else dotted(r.exc)) == "ImportError" for r in raises)
                    ctx.ob("R4", key(di, f"only-ImportError:{norm(call)}"), ok, "the handler re-raises ImportError only", where(di, h))
    for r in walk_no_nested(di.node):
        if isinstance(r, ast.Raise) and r.exc is not None:
            nm = dotted(r.exc.func) if isinstance(r.exc, ast.Call) else dotted(r.exc)
            ctx.ob("R4", key(di, f"raise:{nm}"), nm in ("ImportError", "ModuleNotFoundError"), "dynamic_import raises ImportError only", where(di, r))
    # _inspect_module / _load_module handler tables, located by role
    for fn in loader_cls.methods.values():
        for f in fn:
            for call in calls_in(f.node):
                tq = {c.qualname for c, _k in cg.callees_of_call(f, call) if isinstance(c, FunctionInfo)}
                if "_griffe.agents.inspector.inspect" in tq:
                    hs = enclosing_handlers(call)
                    names = {t for h in hs for t in (handler_types(h) or ["<bare>"])}
                    ctx.ob("R4", key(f, "SystemExit->ImportError"), bool(names & {"SystemExit", "BaseException", "<bare>"}),
                           "a SystemExit raised while inspecting is converted to ImportError", where(f, call))
                if any(q == "_griffe.loader.GriffeLoader.load" for q in tq) and f.name != "load":
                    hs = enclosing_handlers(call)
                    names = {t for h in hs for t in (handler_types(h) or ["<bare>"])}
                    ok = ({"ImportError", "LoadingError"} <= names) or "Exception" in names or "<bare>" in names
                    ctx.ob("R4", key(f, "external-load-guarded"), ok,
                           "loading an external package during alias/wildcard resolution cannot abort it (ImportError incl. "
                           "ModuleNotFoundError and LoadingError handled)", where(f, call))
    # _load_module, on behaviour: the module-loading step replaced by a stand-in that raises each kind of failure a module's text or the import
    # system can produce; whatever the handlers look like, each must come out as LoadingError (first version: the handler types were read off the
    # `except` clauses; one clause over a computed tuple of classes - behaviour unchanged - left that with nothing to read)
    from pathlib import PurePosixPath as _PP

    from sa.absint import Interp as _Interp
    from sa.absint import Obj as _Obj
    from sa.absint import Raised as _Raised

    lm_fn = loader_cls.methods.get("_load_module", [None])[0]
    inner = [x for c_ in (calls_in(lm_fn.node) if lm_fn else []) for x, _k in cg.callees_of_call(lm_fn, c_) if isinstance(x, FunctionInfo) and x.cls is loader_cls]
    if lm_fn is None or not inner:
        raise AnalysisError("C15-R4: GriffeLoader._load_module (or the loading step it delegates to) vanished")
    for exc in ("SyntaxError", "ImportError", "ModuleNotFoundError", "UnicodeDecodeError", "OSError", "FileNotFoundError"):
        it_l = _Interp(prog)

        def boom(_i, *_a, exc=exc, **_k):
            raise _Raised(exc)

        for x in inner:
            it_l.stubs[x.qualname] = boom
        try:
            it_l.call(lm_fn, _Obj(loader_cls, {"__closed__": True}, label="loader"), "m", _PP("/s/m.py"))
            got_l = "returns"
        except _Raised as r:
            got_l = r.exc
        ctx.ob("R4", f"_load_module|{exc}->LoadingError", got_l == "LoadingError", f"{exc} while loading a module comes out of _load_module as {got_l} (LoadingError expected)", where(lm_fn))
