"""C13 - Well-formed docstrings parse back to the structure that was written (thin structural part).

The round-trip itself quantifies over generated documents and is not decided by this family.  Decided necessary conditions:
R1 documentation / code table agreement (every section the docs mark supported has a reader for that style),
R2 Sphinx field matching cannot shadow (prefix order of the `startswith` table),
R3 generator slots: Returns/Yields/Receives take slot 2/0/1 of Generator[Y, S, R], Iterator's single slot for Yields; the tuple element is chosen
   only when several items are documented; same convention in Google and Numpy,
R4 offset contract: block readers return the last consumed line (cursor - 1) and callers skip exactly the header,
R5 nothing written is dropped or leaks: the Numpy admonition title is re-assigned between two section flushes; repeated `:raises X:` fields are
   all kept; an annotation written in the docstring wins over the signature fallback.
"""

from __future__ import annotations

import ast
import itertools
import re

from sa.absint import Interp, Obj, Raised, lazy
from sa.bounds import Progress
from sa.report import Ctx
from sa.srcmodel import AnalysisError, Program, dotted, norm, unparse, walk_no_nested
from sa.util import calls_in, cfg_of, key, kwarg, node_index, where

G = "_griffe.docstrings.google"
N = "_griffe.docstrings.numpy"
S = "_griffe.docstrings.sphinx"
DOC_ROWS = {"Attributes": "attributes", "Functions": "functions", "Methods": "functions", "Classes": "classes", "Modules": "modules", "Examples": "examples",
            "Parameters": "parameters", "Other Parameters": "other_parameters", "Raises": "raises", "Warns": "warns", "Yields": "yields", "Receives": "receives",
            "Returns": "returns"}
SPHINX_READERS = {"Attributes": "_read_attribute", "Parameters": "_read_parameter", "Raises": "_read_exception", "Returns": "_read_return"}


def run(prog: Program, ctx: Ctx) -> None:  # noqa: PLR0912,PLR0915
    # ------------------------------------------------------------------ R1 docs table
    ctx.rule("R1", "every section the reference documentation marks as supported (check mark) for a style has a reader in that style's tables, and "
                   "nothing it marks unsupported for Sphinx has a reader")
    docs = prog.root / "docs" / "reference" / "docstrings.md"
    if not docs.exists():
        raise AnalysisError("docs/reference/docstrings.md vanished")
    text = docs.read_text(encoding="utf8")
    start = text.index("### Sections\n", text.index("## Parsers features"))
    table = text[start:].split("\n\n", 3)[1] if "\n\n" in text[start:] else ""
    rows = [line for line in text[start:].splitlines()[1:40] if "|" in line]
    parsed: dict[str, list[bool]] = {}
    for line in rows:
        cells = [c.strip() for c in line.split("|")]
        if cells[0] in DOC_ROWS and len(cells) >= 4:
            parsed.setdefault(cells[0], [c.startswith("✅") for c in cells[1:4]])
        if cells[0] and cells[0] not in DOC_ROWS and parsed and not cells[0].startswith(("-", "Section")):
            if len(parsed) >= len(DOC_ROWS):
                break
    ctx.expect_min("R1", len(parsed), 12)
    for mod, col in ((G, 0), (N, 1)):
        m = prog.module(mod)
        sk = m.assigns.get("_section_kind")
        kinds = {unparse(v).split(".")[-1] for v in sk.values} if isinstance(sk, ast.Dict) else set()
        titles = {k.value for k in sk.keys if isinstance(k, ast.Constant)} if isinstance(sk, ast.Dict) else set()
        for row, sup in parsed.items():
            if sup[col]:
                ctx.ob("R1", f"{mod.split('.')[-1]}|{row}", DOC_ROWS[row] in kinds and (row.lower() in titles or row.lower().rstrip("s") in titles or any(row.lower() in t for t in titles)),
                       f"docs mark `{row}` as supported by {mod.split('.')[-1]}: kind `{DOC_ROWS[row]}` has a title and a reader", f"{m.relpath}:{getattr(sk, 'lineno', 0)}")
    sm = prog.module(S)
    ft = sm.assigns.get("_field_types")
    readers = {unparse(e.args[1]) for e in ft.elts if isinstance(e, ast.Call) and len(e.args) > 1} if isinstance(ft, ast.List) else set()
    for row, sup in parsed.items():
        if row in SPHINX_READERS:
            ctx.ob("R1", f"sphinx|{row}", sup[2] == (SPHINX_READERS[row] in readers), f"docs say Sphinx {'supports' if sup[2] else 'does not support'} `{row}`; reader {SPHINX_READERS[row]} "
                   f"{'is' if SPHINX_READERS[row] in readers else 'is not'} registered", f"{sm.relpath}:{getattr(ft, 'lineno', 0)}")

    # ------------------------------------------------------------------ R2 field shadowing
    ctx.rule("R2", "every Sphinx field name reaches its own reader: with the table of field types evaluated and `matches` applied in table order to the "
                   "line `:<name> x: text`, the first entry that accepts the line is the one that lists the name (`:vartype` is not swallowed by `:var`)")
    it = Interp(prog)
    mt = prog.function(f"{S}._FieldType.matches")
    try:
        table = list(it.global_name(sm, "_field_types"))
    except Raised as r:
        raise AnalysisError(f"C13-R2: evaluating _field_types raises {r.exc}") from None
    n_names = 0
    for i, entry in enumerate(table):
        names = sorted(it.getattr(entry, "names")) if isinstance(entry, Obj) else []
        for nm in names:
            n_names += 1
            line = f":{nm} x: text"
            first = None
            for j, other in enumerate(table):
                try:
                    if it.truth(it.call(mt, other, line)):
                        first = j
                        break
                except Raised as r:
                    first = f"raises {r.exc}"
                    break
            ctx.ob("R2", f"field|{nm}", first == i, f"`{line}` is accepted first by entry {first} of the table; `{nm}` is listed by entry {i}"
                   + ("" if first == i else ": the field is read by another reader (or by none)"), where(mt), nontrivial=True)
    ctx.expect_min("R2", n_names, 15)

    # ------------------------------------------------------------------ R3 generator slots
    ctx.rule("R3", "annotation fallback from the signature: Returns/Yields/Receives read slot 2/0/1 of Generator[Y, S, R]; Yields reads Iterator's only slot; "
                   "a tuple element is selected only when several items are documented; Google and Numpy agree")
    afp = prog.function(f"{G}._annotation_from_parent")

    def ann(kind: str, elements=None):
        sl = Obj(None, {"elements": elements or []}, label="slice") if kind == "generator" or (kind == "tuple") else "<slot>"
        return Obj(None, {"is_generator": kind == "generator", "is_iterator": kind == "iterator", "is_tuple": kind == "tuple", "slice": sl}, label=kind)

    tup = ann("tuple", ["t0", "t1", "t2"])
    gen = ann("generator", ["Y", "S", tup])
    gen_plain = ann("generator", ["Y", "S", "R"])
    itr = ann("iterator")
    itr.attrs["slice"] = "ITEM"
    for a in (tup, gen, gen_plain, itr):
        for f_ in ("is_generator", "is_iterator", "is_tuple"):
            a.attrs.setdefault(f_, False)
    for s_ in ("Y", "S", "R", "ITEM", "t0"):
        pass
    cases = [
        ("generator, returns slot", gen_plain, 2, False, 0, "R"), ("generator, yields slot", gen_plain, 0, False, 0, "Y"), ("generator, receives slot", gen_plain, 1, False, 0, "S"),
        ("iterator, yields", itr, 0, False, 0, "ITEM"), ("iterator, returns (no slot)", itr, 2, False, 0, itr),
        ("tuple, one item", tup, 2, False, 1, tup), ("tuple, several items", tup, 2, True, 1, "t1"),
        ("generator returning a tuple, several items", gen, 2, True, 2, "t2"), ("generator returning a tuple, one item", gen, 2, False, 2, tup),
    ]
    for label, annotation, gi, multiple, index, want in cases:
        parent = Obj(None, {"annotation": annotation})
        d = Obj(None, {"parent": parent})
        # plain strings stand for slot contents: give them the predicates the code may query through suppress(Exception)
        try:
            got = it.call(afp, d, gen_index=gi, multiple=multiple, index=index)
        except Raised as r:
            got = f"raises {r.exc}"
        ctx.ob("R3", f"google-slot|{label}", got is want or got == want, f"{label}: picked {got!r}, expected {want!r}", where(afp))
    # (which slot each reader asks for, and that several items index the tuple by their own position, is decided on parsed documents by the round-trip table R6)

    # ------------------------------------------------------------------ R4 offset contract
    ctx.rule("R4", "block readers return the index of the last line they consumed (cursor - 1); the main loops pass exactly the first line after the "
                   "header (Google +1, Numpy +2) and add one after the reader: content cannot leak into the next section")
    pr = Progress(prog)
    for mod in (G, N):
        main = prog.function(f"{mod}.parse_{mod.split('.')[-1]}")
        s_ = pr.summary(prog.function(f"{mod}._read_block_items"))
        ctx.ob("R4", f"{mod.split('.')[-1]}|summary", s_ is not None and s_ >= -1, f"summarised contract of {mod.split('.')[-1]}._read_block_items: returned offset >= offset {s_:+d}" if s_ is not None else "no summary", where(main))
    # (that each reader is started right after its title and hands back the last line it consumed is decided on adjacent sections by the round-trip table R6)

    # ------------------------------------------------------------------ R5 nothing dropped / leaked
    ctx.rule("R5", "between two section flushes the Numpy admonition title is re-assigned (a stale title cannot label a later section); repeated Sphinx "
                   "`:raises X:` fields are all kept; a type written in the docstring wins over the signature fallback")
    pn = prog.function(f"{N}.parse_numpy")
    cfg = cfg_of(pn)
    idx = node_index(pn)
    flushes = [c for c in calls_in(pn.node) if dotted(c.func) == "_append_section"]
    ctx.expect_min("R5", len(flushes), 3)
    title_var = None
    for c in flushes:
        if len(c.args) >= 3:
            title_var = unparse(c.args[2])
    if title_var is None:
        raise AnalysisError("C13-R5: admonition title argument of _append_section not found")
    fl_nodes = {x for c in flushes for x in idx.get(id(c), [])}

    def stores_title(x):
        s0 = x.stmt
        return x.kind == "stmt" and isinstance(s0, ast.Assign) and any(unparse(t) == title_var for t in s0.targets)

    for c in flushes:
        for x in idx.get(id(c), []):
            starts = [b for b, lab in cfg.succ[x] if lab != "exc"]
            nxt = cfg.reach(starts, avoid=stores_title, normal_only=True) & fl_nodes
            ctx.ob("R5", key(pn, f"title-reassigned-after-flush@L{'known' if 'section' in unparse(c) else ''}{_arm(c)}"), not nxt,
                   f"after `{norm(c, 50)}` the admonition title is re-assigned before the next flush" if not nxt else
                   f"after `{norm(c, 50)}` another flush can be reached with the same `{title_var}`: a stale admonition title labels later content", where(pn, c))
    rx = prog.function(f"{S}._read_exception")
    dedupe = [n for n in walk_no_nested(rx.node) if isinstance(n, ast.Compare) and any(isinstance(op, (ast.In, ast.NotIn)) for op in n.ops) and "exception" in unparse(n).lower()]
    apps = [c for c in calls_in(rx.node) if isinstance(c.func, ast.Attribute) and c.func.attr == "append" and "exceptions" in unparse(c.func.value)]
    ok = len(apps) == 1 and not dedupe
    if apps:
        cfgx = cfg_of(rx)
        facts = [t for x in node_index(rx).get(id(apps[0]), []) for t in cfgx.facts_on_all_paths(x)]
        ok = ok and all(("invalid" in t or "directive_parts" in t) for t, _tr in facts)
    ctx.ob("R5", key(rx, "every-raise-kept"), ok, "every well-formed `:raises X:` field is appended (the same exception type may be documented several times); "
           "the append is conditioned only on the directive being well-formed", where(rx))
    # (the signature-fallback clause is decided by the round-trip table, R6)
    _roundtrip_table(prog, ctx)
    _annotation_kind_table(prog, ctx)


ITEM_KINDS = ["parameters", "other parameters", "raises", "warns", "attributes", "functions", "classes", "modules", "returns", "yields", "receives"]
TITLE = {k: k.title() for k in ITEM_KINDS}
DESCS = {
    "one line": ["Plain description."],
    "two paragraphs": ["First line.", "second line", "", "Second paragraph."],
    "role on a continuation line": ["Uses the helper", ":class:`Codec` to do it."],
    "list in the description": ["Choices:", "", "- one", "- two"],
    "two blank lines inside": ["Snippet:", "", "", "after two blank lines."],
    "parenthesis and colon in the text": ["The value (see notes): more."],
}
GOOGLE_ONLY_DESCS = {"two blank lines inside"}  # two blank lines end a Numpy block, and one ends a Sphinx field


def _google_item(kind: str, name: str | None, typ: str | None, desc: list[str]) -> list[str]:
    if kind in ("raises", "warns"):
        first = f"{typ}: {desc[0]}"
    elif kind in ("functions", "classes", "modules"):
        first = f"{name}: {desc[0]}"
    else:
        first = f"{name} ({typ}): {desc[0]}" if typ else f"{name}: {desc[0]}"
    return ["    " + first, *[("        " + ln if ln else "") for ln in desc[1:]]]


def _numpy_item(kind: str, name: str | None, typ: str | None, desc: list[str]) -> list[str]:
    if kind in ("raises", "warns"):
        first = f"{typ}"
    elif kind in ("functions", "classes", "modules"):
        first = f"{name}"
    elif kind in ("returns", "yields", "receives"):
        # name and type are both optional here: a bare word is the *type* (numpydoc), "name :" is the documented spelling of a name without type
        first = f"{name} : {typ}" if typ else f"{name} :"
    else:
        first = f"{name} : {typ}" if typ else f"{name}"
    return [first, *[("    " + ln if ln else "") for ln in desc]]


def _render(style: str, sections: list[tuple[str, object]]) -> list[str]:
    """The well-formed syntax of docs/reference/docstrings.md (Google: `Title:` + indented block after a blank line; Numpy: underlined title)."""
    out = ["Summary."]
    for kind, payload in sections:
        out.append("")
        if kind in ITEM_KINDS:
            if style == "google":
                out.append(TITLE[kind] + ":")
                for item in payload:  # type: ignore[attr-defined]
                    out += _google_item(kind, *item)
            else:
                out += [TITLE[kind], "-" * len(TITLE[kind])]
                for item in payload:  # type: ignore[attr-defined]
                    out += _numpy_item(kind, *item)
        elif kind == "admonition":
            title, lines = payload  # type: ignore[misc]
            out += [title + ":", *[("    " + ln if ln else "") for ln in lines]] if style == "google" else [title, "-" * len(title), *lines]
        elif kind == "examples":
            out += ["Examples:", *[("    " + ln if ln else "") for ln in payload]] if style == "google" else ["Examples", "--------", *payload]  # type: ignore[misc]
        else:
            out += payload  # type: ignore[operator]
    return out


def _expected(sections: list[tuple[str, object]]) -> list:
    out: list = [("text", "Summary.")]
    for kind, payload in sections:
        if kind in ITEM_KINDS:
            items = []
            for name, typ, desc in payload:  # type: ignore[attr-defined]
                items.append((None if kind in ("raises", "warns") else name, typ, "\n".join(desc)))
            out.append((kind.replace(" ", ""), items))
        elif kind == "admonition":
            title, lines = payload  # type: ignore[misc]
            out.append(("admonition", title, title.lower().replace(" ", "-"), "\n".join(lines)))
        elif kind == "examples":
            out.append(("examples", [("text", "Do this:"), ("examples", ">>> f(1)\n2")]))
        else:
            out.append(("text", "\n".join(payload)))  # type: ignore[arg-type]
    return out


def _roundtrip_table(prog: Program, ctx: Ctx) -> None:  # noqa: PLR0912,PLR0915
    """R6: the parsers (their ASTs, evaluated on concrete lines) applied to well-formed docstrings rendered from a model of sections."""
    import itertools

    from sa.absint import Obj, Raised, Sym

    ctx.rule("R6", "round-trip table: for every ordered pair of section kinds, every description shape and the signature-fallback cases, the docstring "
                   "rendered in the documented well-formed syntax of a style parses back to the same sections, items, annotations and descriptions "
                   "(descriptions compared up to trailing newlines)")
    it = Interp(prog, max_depth=40, max_steps=3_000_000)
    it.stubs["_griffe.docstrings.utils.parse_docstring_annotation"] = lambda _i, ann, _ds, **_k: ann
    it.stubs["_griffe.docstrings.utils.docstring_warning"] = lambda _i, *_a, **_k: None
    fcls, dcls = prog.cls("_griffe.models.Function"), prog.cls("_griffe.models.Docstring")

    def parent(params: dict | None = None, returns: object = None) -> Obj:
        ps = {n: Obj(None, {"name": n, "annotation": a, "default": d, "__closed__": True}) for n, (a, d) in (params or {}).items()}
        return Obj(fcls, {"parameters": ps, "returns": returns, "labels": set(), "name": "f", "path": "m.f", "__closed__": True}, label="f")

    def simplify(sec: Obj) -> tuple:
        k = sec.cls.name.replace("DocstringSection", "").lower()
        v = sec.attrs["value"]
        if k == "text":
            return ("text", v.rstrip("\n"))
        if k == "admonition":
            return ("admonition", sec.attrs.get("title"), it.getattr(v, "annotation"), it.getattr(v, "description").rstrip("\n"))
        if k == "examples":
            return ("examples", [((a.name.split(".")[-1] if isinstance(a, Sym) else a), b) for a, b in v])
        return (k, [(x.attrs.get("name") or None, x.attrs.get("annotation"), (x.attrs.get("description") or "").rstrip("\n")) for x in v])

    def parse(style: str, lines: list[str], par: Obj, **options: object) -> list | str:
        fn = prog.function(f"_griffe.docstrings.{style}.parse_{style}")
        ds = Obj(dcls, {"lines": list(lines), "value": "\n".join(lines), "parent": par, "lineno": 1, "endlineno": len(lines)}, label="docstring")
        it.steps = 0
        try:
            return [simplify(s_) for s_ in it.call(fn, ds, warn_unknown_params=False, **options)]
        except Raised as r:
            return f"raises {r.exc}"

    def sample(kind: str, tag: str, desc: list[str] | None = None) -> tuple[str, object]:
        d = desc or ["Plain description."]
        if kind in ITEM_KINDS:
            typed = kind not in ("functions", "classes", "modules")
            return (kind, [(f"{tag}1", "int" if typed else None, d), (f"{tag}2", ("ValueError" if kind in ("raises", "warns") else None), ["Other item."])])
        if kind == "admonition":
            return ("admonition", ("Note", ["Be careful.", "", "Really."]))
        if kind == "see also":
            return ("admonition", ("See Also", ["other_func : Does the reverse."]))
        if kind == "examples":
            return ("examples", ["Do this:", "", ">>> f(1)", "2"])
        return ("text", ["Free text paragraph."])

    def fix_raises(sec: tuple[str, object]) -> tuple[str, object]:
        kind, payload = sec
        if kind in ("raises", "warns"):
            return (kind, [(None, typ or "KeyError", d) for _n, typ, d in payload])  # type: ignore[attr-defined]
        return sec

    n = 0
    kinds = [*ITEM_KINDS, "admonition", "see also", "examples"]
    for style in ("google", "numpy"):
        fn = prog.function(f"_griffe.docstrings.{style}.parse_{style}")
        all_kinds = [*kinds, "text"] if style == "google" else kinds  # Numpy has no syntax to end an item section other than the next title
        for k1, k2 in itertools.product(all_kinds, repeat=2):
            if k1 == "text":
                continue  # free text right after the summary is the same text section
            secs = [fix_raises(sample(k1, "a")), fix_raises(sample(k2, "b"))]
            got = parse(style, _render(style, secs), parent())
            want = _expected(secs)
            n += 1
            ctx.ob("R6", f"pair|{style}|{k1} then {k2}", got == want, f"{style}: a {k1} section followed by a {k2} section parses to {got}" + ("" if got == want else f"; written: {want}"), where(fn))
        for kind, (dname, desc) in itertools.product(ITEM_KINDS, DESCS.items()):
            if dname in GOOGLE_ONLY_DESCS and style != "google":
                continue
            secs = [fix_raises(sample(kind, "a", desc)), sample("admonition", "")]
            got = parse(style, _render(style, secs), parent())
            want = _expected(secs)
            n += 1
            ctx.ob("R6", f"description|{style}|{kind}|{dname}", got == want, f"{style}: {kind} item with {dname}: {got}" + ("" if got == want else f"; written: {want}"), where(fn))
        # annotations / defaults omitted from the docstring come from the signature; written ones win
        par = parent({"x": ("SIG_X", "1"), "y": ("SIG_Y", None)}, returns="SIG_RET")
        secs = [("parameters", [("x", "str", ["Typed in the docstring."]), ("y", None, ["Typed in the signature only."]), ("z", None, ["Unknown to the signature."])])]
        got = parse(style, _render(style, secs), par)
        want = [("text", "Summary."), ("parameters", [("x", "str", "Typed in the docstring."), ("y", "SIG_Y", "Typed in the signature only."), ("z", None, "Unknown to the signature.")])]
        n += 1
        ctx.ob("R6", f"signature|{style}|parameters", got == want, f"{style}: parameter annotations {got}" + ("" if got == want else f"; expected {want}"), where(fn))
        # defaults omitted from the docstring come from the signature, in both parameter sections and whatever the warning option says
        for kind, warn in itertools.product(("parameters", "other parameters"), (True, False)):
            secs = [(kind, [("x", "int", ["Has a default in the signature."]), ("y", "int", ["Has none."])])]
            ds = Obj(dcls, {"lines": _render(style, secs), "value": "\n".join(_render(style, secs)), "parent": par, "lineno": 1, "endlineno": 9}, label="docstring")
            it.steps = 0
            try:
                out = it.call(fn, ds, warn_unknown_params=warn)
                gotd: object = [(x.attrs.get("name"), x.attrs.get("value")) for s_ in out if s_.cls.name != "DocstringSectionText" for x in s_.attrs["value"]]
            except Raised as r:
                gotd = f"raises {r.exc}"
            n += 1
            ctx.ob("R6", f"signature|{style}|{kind}|defaults|warn_unknown_params={warn}", gotd == [("x", "1"), ("y", None)],
                   f"{style}: defaults of the {kind} items x (signature default 1) and y (none), warn_unknown_params={warn}: {gotd}", where(fn))
    # item names are identifiers: upper-case and mixed-case ones are names like any other
    for style, kind in itertools.product(("google", "numpy"), ("parameters", "attributes", "returns", "yields", "receives")):
        secs = [(kind, [("X", "int", ["Upper-case name."]), ("nRows", "int", ["Mixed case."]), ("Y_pred", None, ["Untyped."])])]
        got = parse(style, _render(style, secs), parent())
        want = _expected(secs)
        n += 1
        ctx.ob("R6", f"names|{style}|{kind}|upper and mixed case", got == want, f"{style}: {kind} items named X, nRows, Y_pred: {got}" + ("" if got == want else f"; written: {want}"),
               where(prog.function(f"_griffe.docstrings.{style}.parse_{style}")))
    # Examples: console snippets are left as written with trim_doctest_flags=False; with True (default) the `# doctest:` flags go away and `<BLANKLINE>`
    # lines become empty lines
    ex_lines = [">>> print(f(1))  # doctest: +SKIP", "a", "<BLANKLINE>", "b"]
    for style, trim in itertools.product(("google", "numpy"), (True, False)):
        doc_lines = ["Summary.", "", *(["Examples:", *["    " + ln for ln in ex_lines]] if style == "google" else ["Examples", "--------", *ex_lines])]
        got = parse(style, doc_lines, parent(), trim_doctest_flags=trim)
        got4 = [g_[1] for g_ in got if g_[0] == "examples"] if isinstance(got, list) else got
        want4 = [[("examples", "\n".join([">>> print(f(1))", "a", "", "b"] if trim else ex_lines))]]
        n += 1
        ctx.ob("R6", f"examples|{style}|trim_doctest_flags={trim}", got4 == want4, f"{style}, trim_doctest_flags={trim}: the snippet {ex_lines} parses to {got4}; expected {want4}",
               where(prog.function(f"_griffe.docstrings.{style}.parse_{style}")))
    # Attributes written without a type take the annotation of the documented member - declared in the class body or inherited from a base class
    ccls_ = prog.cls("_griffe.models.Class")
    own_m = Obj(None, {"name": "own", "annotation": "OWN", "is_alias": False, "__closed__": True}, label="own")
    inh_m = Obj(None, {"name": "inh", "annotation": "INH", "is_alias": True, "__closed__": True}, label="inherited")
    for style in ("google", "numpy", "sphinx"):
        kpar = Obj(ccls_, {"name": "K", "path": "m.K", "members": {"own": own_m}, "inherited_members": {"inh": inh_m}, "all_members": {"inh": inh_m, "own": own_m},
                           "labels": set(), "parameters": {}, "__closed__": True}, label="K")
        if style == "sphinx":
            lines3 = ["Summary.", "", ":var own: Declared here.", ":var inh: Inherited."]
        else:
            lines3 = _render(style, [("attributes", [("own", None, ["Declared here."]), ("inh", None, ["Inherited."])])])
        got = parse(style, lines3, kpar)
        got3 = [(a, b) for g_ in got if g_[0] == "attributes" for a, b, _c in g_[1]] if isinstance(got, list) else got
        n += 1
        ctx.ob("R6", f"signature|{style}|attributes|declared and inherited", got3 == [("own", "OWN"), ("inh", "INH")],
               f"{style}: untyped Attributes items of a class that declares `own: OWN` and inherits `inh: INH`: {got3}", where(prog.function(f"_griffe.docstrings.{style}.parse_{style}")))
    # Numpy: several names documented by one item (`x, y`) without a type: each takes its own annotation and default from the signature
    fn = prog.function("_griffe.docstrings.numpy.parse_numpy")
    par2 = parent({"x": ("SIG_X", "1"), "y": ("SIG_Y", None)})
    lines2 = ["Summary.", "", "Parameters", "----------", "x, y", "    Both of them."]
    ds2 = Obj(dcls, {"lines": lines2, "value": "\n".join(lines2), "parent": par2, "lineno": 1, "endlineno": 6}, label="docstring")
    it.steps = 0
    try:
        out2 = it.call(fn, ds2)
        got2: object = [(x.attrs.get("name"), x.attrs.get("annotation"), x.attrs.get("value")) for s_ in out2 if s_.cls.name != "DocstringSectionText" for x in s_.attrs["value"]]
    except Raised as r:
        got2 = f"raises {r.exc}"
    n += 1
    ctx.ob("R6", "signature|numpy|parameters|two names in one item", got2 == [("x", "SIG_X", "1"), ("y", "SIG_Y", None)],
           f"numpy: item `x, y` without a type on def f(x: SIG_X = 1, y: SIG_Y): {got2}; each name has its own annotation and default in the signature", where(fn))
    # Sphinx: field lists (order of sections is not part of the property for this style)
    fn = prog.function("_griffe.docstrings.sphinx.parse_sphinx")

    def squash(t: str | None) -> str | None:
        return " ".join(t.split()) if isinstance(t, str) else t

    for (dname, desc), type_form in itertools.product(DESCS.items(), ("separate field after", "separate field before", "inline", "none")):
        if "" in desc:
            continue  # a blank line ends a Sphinx field
        cont = ["    " + ln for ln in desc[1:]]
        lines = ["Summary.", ""]
        if type_form == "separate field before":
            lines += [":type x: int"]
        lines += [f":param {'int ' if type_form == 'inline' else ''}x: {desc[0]}", *cont]
        if type_form == "separate field after":
            lines += [":type x: int"]
        lines += [":param y: Second parameter.", f":raises ValueError: {desc[0]}", *cont, f":returns: {desc[0]}", *cont, ":rtype: str", f":var a: {desc[0]}", *cont, ":vartype a: float"]
        got = parse("sphinx", lines, parent({"x": ("SIG_X", None), "y": ("SIG_Y", None)}))
        text = squash(" ".join(desc))
        want = {"text": "Summary.", "parameters": [("x", "SIG_X" if type_form == "none" else "int", text), ("y", "SIG_Y", "Second parameter.")],
                "raises": [(None, "ValueError", text)], "returns": [(None, "str", text)], "attributes": [("a", "float", text)]}
        if isinstance(got, list):
            gd: object = {g_[0]: (g_[1] if g_[0] == "text" else [(a, b, squash(c)) for a, b, c in g_[1]]) for g_ in got}
        else:
            gd = got
        n += 1
        ctx.ob("R6", f"sphinx|{dname}|type {type_form}", gd == want, f"sphinx: description with {dname}, type given as {type_form}: {gd}" + ("" if gd == want else f"; written: {want}"), where(fn))
    # Sphinx: a field ends at a blank line followed by unindented text (reStructuredText's rule); a blank line followed by indented text continues it
    for tail, want_desc, want_text in ((["", "Trailing paragraph."], "The x.", "Summary. Trailing paragraph."),
                                       (["", "    Second paragraph of the field."], "The x. Second paragraph of the field.", "Summary.")):
        got = parse("sphinx", ["Summary.", "", ":param x: The x.", *tail], parent({"x": ("SIG_X", None)}))
        gd = {g_[0]: (squash(g_[1]) if g_[0] == "text" else [(a, b, squash(c)) for a, b, c in g_[1]]) for g_ in got} if isinstance(got, list) else got
        want = {"text": want_text, "parameters": [("x", "SIG_X", want_desc)]}
        n += 1
        ctx.ob("R6", f"sphinx|text after the last field|{'indented' if tail[1].startswith(' ') else 'unindented'}", gd == want,
               f"sphinx: `:param x: The x.`, a blank line, then {tail[1]!r}: {gd}; written: {want}", where(prog.function("_griffe.docstrings.sphinx.parse_sphinx")))
    # annotations omitted from Returns / Yields / Receives come from the matching slot of the signature's return annotation
    def ann(kind: str, elements: list | None = None, item: object = None) -> Obj:
        sl: object = Obj(None, {"elements": elements or [], "__closed__": True}, label="slice") if kind in ("generator", "tuple") else item
        return Obj(None, {"is_generator": kind == "generator", "is_iterator": kind == "iterator", "is_tuple": kind == "tuple", "slice": sl, "__closed__": True}, label=kind)

    tup = ann("tuple", ["t0", "t1", "t2"])
    sig_cases = {
        "Generator[Y, S, R]": (ann("generator", ["Y", "S", "R"]), {"returns": "R", "yields": "Y", "receives": "S"}, None),
        "Generator[tuple, tuple, tuple]": (ann("generator", [tup, tup, tup]), {"returns": tup, "yields": tup, "receives": tup}, ["t0", "t1", "t2"]),
        "Iterator[ITEM]": (ann("iterator", item="ITEM"), {"yields": "ITEM"}, None),
        "tuple[t0, t1, t2]": (tup, {"returns": tup}, ["t0", "t1", "t2"]),
    }
    for style in ("google", "numpy"):
        fn = prog.function(f"_griffe.docstrings.{style}.parse_{style}")
        for (sig_label, (annotation, single, several)), kind in itertools.product(sig_cases.items(), ("returns", "yields", "receives")):
            if kind not in single:
                continue
            for n_items in (1, 2, 3):
                if n_items > 1 and several is None:
                    continue
                secs = [(kind, [(f"r{i}", None, [f"Item {i}."]) for i in range(n_items)])]
                got = parse(style, _render(style, secs), parent(returns=annotation))
                want_ann = [single[kind]] if n_items == 1 else several[:n_items]
                want = [("text", "Summary."), (kind, [(f"r{i}", want_ann[i], f"Item {i}.") for i in range(n_items)])]
                same = isinstance(got, list) and len(got) == 2 and got[0] == want[0] and got[1][0] == kind and len(got[1][1]) == n_items and all(
                    g_[0] == w_[0] and (g_[1] is w_[1] or g_[1] == w_[1]) and g_[2] == w_[2] for g_, w_ in zip(got[1][1], want[1][1]))
                n += 1
                ctx.ob("R6", f"signature|{style}|{kind}|{sig_label}|{n_items} item(s)", same,
                       f"{style}: {n_items} untyped {kind} item(s) in a function annotated -> {sig_label}: annotations {[g_[1] for g_ in got[1][1]] if isinstance(got, list) and len(got) > 1 else got}, "
                       f"expected {want_ann}", where(fn))
    ctx.expect_min("R6", n, 450)
    ctx.analysed["roundtrip_documents"] = n


def _annotation_kind_table(prog: Program, ctx: Ctx) -> None:
    """R7: the slots of R6's signature rows are chosen by the annotation's own classification (is_tuple / is_iterator / is_generator), which R6 sets by hand;
    here the classification itself is evaluated on expressions built from annotation texts, in every spelling the typing documentation gives for the type."""
    ctx.rule("R7", "a return annotation is classified as tuple / iterator / generator in every spelling of the type (builtin, typing alias, dotted typing alias), and "
                   "only then: these flags decide which slot of the signature an untyped Returns / Yields / Receives item takes its type from")
    it = Interp(prog, max_depth=60, max_steps=200_000)
    M = "_griffe.models"
    mod = it._construct(prog.cls(f"{M}.Module"), ["m"], {})
    fn = it._construct(prog.cls(f"{M}.Function"), ["f"], {})
    setm = prog.lookup_method(mod.cls, "set_member")[0]
    it.call(setm, mod, "f", fn)
    for n_, t_ in (("Tuple", "typing.Tuple"), ("typing", "typing"), ("Iterator", "collections.abc.Iterator"), ("Generator", "typing.Generator"), ("abc", "collections.abc")):
        mod.attrs["imports"][n_] = t_
        it.call(setm, mod, n_, it._construct(prog.cls(f"{M}.Alias"), [n_, t_], {}))
    ds = it._construct(prog.cls(f"{M}.Docstring"), ["Summary."], {"parent": fn, "lineno": 1, "endlineno": 1})
    pda = prog.function("_griffe.docstrings.utils.parse_docstring_annotation")
    rows = {
        "tuple[int, str]": "tuple", "Tuple[int, str]": "tuple", "typing.Tuple[int, str]": "tuple", "tuple": None, "list[int]": None, "Tuple": None,
        "Iterator[int]": "iterator", "typing.Iterator[int]": "iterator", "abc.Iterator[int]": "iterator",
        "Generator[int, str, None]": "generator", "typing.Generator[int, str, None]": "generator", "abc.Generator[int, str, None]": "generator",
    }
    ecls = prog.cls("_griffe.expressions.Expr")
    for text, want in rows.items():
        it.steps = 0
        it.depth = 0
        try:
            e = it.call(pda, text, ds)
            got = [k_ for k_ in ("tuple", "iterator", "generator") if not isinstance(e, str) and it.getattr(e, f"is_{k_}")]
        except Raised as r:
            got = [f"raises {r.exc}"]
        ctx.ob("R7", f"kind|{text}", got == ([want] if want else []), f"`-> {text}` is classified as {got or 'none of the three'}; it is {want or 'none of the three'}",
               where(prog.lookup_method(ecls, "is_tuple")[0]))
    ctx.expect_min("R7", len(rows), 12)


def _arm(c: ast.Call) -> str:
    from sa.srcmodel import ancestors

    for anc in ancestors(c):
        if isinstance(anc, ast.If):
            return norm(anc.test, 30)
        if isinstance(anc, ast.While):
            return "loop"
    return "after-loop"
