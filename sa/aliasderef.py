"""Shared A-EX helper: dereference sites of possibly-alias members.

`Alias` proxies most attributes to `final_target`, which raises AliasResolutionError / CyclicAliasError for
unresolvable or cyclic aliases.  The set of *raising* proxies is computed by exception-flow analysis of the Alias
class itself (not listed by hand).  A site `R.attr` with `attr` raising and `R` possibly an alias is discharged when
  * `R`'s static type excludes Alias, or R is `self`;
  * it is dominated by `R.is_alias` being false (CFG facts, short-circuit operands, comprehension filters);
  * `R` is narrowed by `isinstance(R, <non-alias class>)`;
  * it is inside a handler / suppress for both error types (or a common base);
  * `R` was replaced by its final target under such a handler on every path (`if R.is_alias: R = R.final_target`);
  * the site sits in a private helper (leading underscore, never used as a value, every reference is a direct call inside a function) and
    *every* call site of that helper discharges it: the call is inside a handler for both errors (and the helper's work happens inside it: not a
    lazily consumed generator), or the whole calling function is itself discharged that way, or - when the receiver is a parameter the helper
    never re-binds - the argument bound to it is non-alias by one of the rules above at the call site, or is in turn such a parameter of the
    caller (greatest fixpoint: a recursive call assumes what it proves), or is a parameter of a public entry point that the rule assumes to be a
    non-alias root (`assume`, keyed by the public function and its parameter name: both are API);
  * the caller tabled it with a reason.
"""

from __future__ import annotations

import ast
from dataclasses import dataclass

from sa.callgraph import CallGraph
from sa.cfg import handler_types, suppress_types
from sa.excflow import ExcFlow
from sa.util import canon_text
from sa.srcmodel import AnalysisError, FunctionInfo, Program, ancestors, dotted, unparse, walk_no_nested
from sa.util import cfg_of, node_index

AE = {"AliasResolutionError", "CyclicAliasError"}
CATCH_ALL = {"GriffeError", "ResolutionError", "Exception", "BaseException"}


def enclosing_catch(node: ast.AST) -> set[str]:
    got: set[str] = set()
    child = node
    for anc in ancestors(node):
        if isinstance(anc, ast.Try) and any(child is s for s in anc.body):
            for h in anc.handlers:
                for t in handler_types(h) or ["BaseException"]:
                    got.add(t.split(".")[-1])
        if isinstance(anc, (ast.With, ast.AsyncWith)) and any(child is s for s in anc.body):
            for it in anc.items:
                t = suppress_types(it)
                if t:
                    got |= {x.split(".")[-1] for x in t}
        if isinstance(anc, (ast.FunctionDef, ast.AsyncFunctionDef)):
            break
        child = anc
    return got


def catches_both(got: set[str]) -> bool:
    return AE <= got or bool(got & CATCH_ALL)


@dataclass
class Site:
    fn: FunctionInfo
    node: ast.Attribute
    receiver: str
    status: str  # guarded | handled | narrowed | dealiased | tabled | OPEN
    reason: str


class AliasDeref:
    def __init__(self, prog: Program, cg: CallGraph) -> None:
        self.prog = prog
        self.cg = cg
        self.alias = prog.cls("_griffe.models.Alias")
        alias = self.alias

        def skip_parent(_fn, callee, site):
            recv = site.func.value if isinstance(site, ast.Call) and isinstance(site.func, ast.Attribute) else (
                site.value if isinstance(site, ast.Attribute) else None)
            if recv is None or callee.cls is not alias:
                return False
            text = unparse(recv)
            if isinstance(recv, ast.Name):
                # a local bound once, to the parent link: `parent = self.parent`
                stores = [s_ for s_ in ast.walk(_fn.node) if isinstance(s_, (ast.Assign, ast.AnnAssign)) and any(
                    isinstance(t, ast.Name) and t.id == recv.id for t in (s_.targets if isinstance(s_, ast.Assign) else [s_.target]))]
                others = [x for x in ast.walk(_fn.node) if isinstance(x, ast.Name) and x.id == recv.id and isinstance(x.ctx, ast.Store)]
                if len(stores) == 1 and len(others) == 1 and stores[0].value is not None and recv.id not in _fn.params:
                    text = unparse(stores[0].value)
            return text in ("self.parent", "self._parent")

        self.ef = ExcFlow(prog, cg, None, skip_callee=skip_parent)
        roots = [f for c in prog.mro(alias) for defs in c.methods.values() for f in defs]
        self.ef.compute(roots)
        names: set[str] = set()
        for c in prog.mro(alias):
            names |= set(c.methods)
        self.raising: set[str] = set()
        for n in names:
            for f in prog.lookup_method(alias, n):
                if not f.is_setter and set(self.ef.escapes(f)) & AE:
                    self.raising.add(n)
        self.safe = names - self.raising
        # property setters of Alias that dereference the target: `x.attr = v` on a possibly-alias receiver raises like a load does
        self.raising_setters: set[str] = set()
        for n in names:
            for f in prog.lookup_method(alias, n):
                if f.is_setter and set(self.ef.escapes(f)) & AE:
                    self.raising_setters.add(n)
        if len(self.raising) < 40:
            raise AnalysisError(f"only {len(self.raising)} raising Alias proxies computed (expected >= 40): exception-flow summaries broke")

    def alias_facts(self, fn: FunctionInfo, node: ast.AST) -> set[tuple[str, bool]]:
        return self.ef._alias_facts(fn, node)

    # ------------------------------------------------------------------ interprocedural discharge through private helpers
    def call_sites(self, f: FunctionInfo) -> list[tuple[FunctionInfo, ast.Call]] | None:
        from sa.util import private_call_sites

        return private_call_sites(self.prog, f)

    @staticmethod
    def _bind(f: FunctionInfo, call: ast.Call) -> dict[str, ast.AST] | None:
        if any(isinstance(a, ast.Starred) for a in call.args) or any(k.arg is None for k in call.keywords):
            return None
        a = f.node.args
        pos = [x.arg for x in (*a.posonlyargs, *a.args)]
        if f.cls is not None and "staticmethod" not in [d.split(".")[-1] for d in f.decorators] and isinstance(call.func, ast.Attribute):
            pos = pos[1:]
        if len(call.args) > len(pos) and a.vararg is None:
            return None
        bound: dict[str, ast.AST] = dict(zip(pos, call.args))
        for k in call.keywords:
            bound[k.arg] = k.value
        return bound

    @staticmethod
    def _rebinds(f: FunctionInfo, name: str) -> bool:
        return any(isinstance(n, ast.Name) and n.id == name and isinstance(n.ctx, (ast.Store, ast.Del)) for n in ast.walk(f.node))

    def _consumed_in_place(self, call: ast.Call) -> bool:
        from sa.srcmodel import parent

        par = parent(call)
        return isinstance(par, ast.YieldFrom) or (isinstance(par, (ast.For, ast.comprehension)) and par.iter is call) or (
            isinstance(par, ast.Call) and dotted(par.func) in ("list", "tuple", "set", "sorted", "dict", "any", "all") and call in par.args)

    def arg_not_alias(self, g: FunctionInfo, call: ast.Call, a: ast.AST, object_may_be_alias: bool, stack: tuple) -> str | None:
        types = self.cg.type_of(g, a)
        if types and self.alias not in types and not (object_may_be_alias and any(t.name == "Object" for t in types)):
            return f"`{unparse(a)}` is a {'/'.join(sorted(t.name for t in types))}"
        atext = unparse(a)
        from sa.rules.C12 import _short_circuit_facts

        facts = set(self.alias_facts(g, call))
        facts |= {(unparse(x.value), t) for x, t in _short_circuit_facts(call) if isinstance(x, ast.Attribute) and x.attr == "is_alias"}
        if (atext, False) in facts:
            return f"the call is dominated by `not {atext}.is_alias`"
        if isinstance_narrowed(g, call, atext):
            return f"`{atext}` is narrowed by isinstance to a non-alias class"
        if isinstance(a, ast.Name) and a.id in g.params and not self._rebinds(g, a.id):
            why = self.caller_discharges(g, a.id, object_may_be_alias=object_may_be_alias, stack=stack)
            if why is not None:
                return f"`{atext}` is a parameter of {g.name}: {why}"
        return None

    def caller_discharges(self, f: FunctionInfo, param: str | None, *, object_may_be_alias: bool = False, stack: tuple = ()) -> str | None:
        """Why a dereference in `f` (of its parameter `param`, or of anything when None) cannot raise an alias error that escapes, seen from every caller."""
        key = (f.qualname, param)
        assume = self.__dict__.get("assume", {})
        if key in assume:
            return f"assumed: {assume[key]}"
        if key in stack:
            return "recursive call (assumes what is being shown)"
        if len(stack) > 8:
            return None
        sites = self.call_sites(f)
        if not sites:
            return None
        reasons: list[str] = []
        for g, c in sites:
            if catches_both(enclosing_catch(c)) and (not f.is_generator or self._consumed_in_place(c)):
                reasons.append(f"{g.name}: the call is inside a handler for both alias errors")
                continue
            why = self.caller_discharges(g, None, object_may_be_alias=object_may_be_alias, stack=(*stack, key)) if (g.qualname, None) != key else None
            if why is not None:
                reasons.append(f"{g.name}: {why}")
                continue
            if param is None:
                return None
            bound = self._bind(f, c)
            a = bound.get(param) if bound is not None else None
            if a is None:
                return None
            why = self.arg_not_alias(g, c, a, object_may_be_alias, (*stack, key))
            if why is None:
                return None
            reasons.append(f"{g.name}: {why}")
        return f"every call site of {f.name} discharges it ({'; '.join(dict.fromkeys(reasons))})"

    def scan(self, fns: list[FunctionInfo], tabled: dict[tuple[str, str], str], *, object_may_be_alias: bool = False,
             assume: dict[tuple[str, str | None], str] | None = None) -> list[Site]:
        self.assume = dict(assume or {})
        out: list[Site] = []
        for f in fns:
            for n in walk_no_nested(f.node):
                if not (isinstance(n, ast.Attribute) and ((isinstance(n.ctx, ast.Load) and n.attr in self.raising) or
                                                          (isinstance(n.ctx, ast.Store) and n.attr in self.raising_setters))):
                    continue
                recv = n.value
                rtext = unparse(recv)
                types = self.cg.type_of(f, recv)
                # an annotation that names the base class `Object` does not exclude aliases (they stand in for objects everywhere): only a
                # specific class (Module, Class, Parameter, ...) does
                if (types and self.alias not in types and not (object_may_be_alias and any(t.name == "Object" for t in types))) or rtext == "self":
                    continue
                facts = set(self.alias_facts(f, n))
                # earlier operands of the same `and` / `or` / conditional expression: `not x.is_alias and x.is_module`
                from sa.rules.C12 import _short_circuit_facts

                facts |= {(unparse(a.value), t) for a, t in _short_circuit_facts(n) if isinstance(a, ast.Attribute) and a.attr == "is_alias"}
                if (rtext, False) in facts:
                    out.append(Site(f, n, rtext, "guarded", f"dominated by `not {rtext}.is_alias`"))
                    continue
                if isinstance_narrowed(f, n, rtext):
                    out.append(Site(f, n, rtext, "narrowed", "receiver narrowed by isinstance to a non-alias class"))
                    continue
                if catches_both(enclosing_catch(n)):
                    out.append(Site(f, n, rtext, "handled", "inside a handler for both alias errors"))
                    continue
                if isinstance(n.ctx, ast.Store):
                    needed = set()
                    for sf in self.prog.lookup_method(self.alias, n.attr):
                        if sf.is_setter:
                            needed |= set(self.ef.escapes(sf)) & AE
                    got = enclosing_catch(n)
                    if needed and (needed <= got or got & {"Exception", "BaseException"}):
                        out.append(Site(f, n, rtext, "handled", f"inside a handler for what the setter raises ({sorted(needed)})"))
                        continue
                if dealiased(f, n, rtext):
                    out.append(Site(f, n, rtext, "dealiased", f"`{rtext}` replaced by its final target under a handler on every path"))
                    continue
                par_name = recv.id if isinstance(recv, ast.Name) and recv.id in f.params and not self._rebinds(f, recv.id) else None
                why = self.caller_discharges(f, par_name, object_may_be_alias=object_may_be_alias)
                if why is not None:
                    out.append(Site(f, n, rtext, "caller-guarded", why))
                    continue
                reason = tabled.get((f.qualname, canon_text(f, n)))  # tables are written with canonical names (see sa.util.canon_names)
                if reason is not None:
                    out.append(Site(f, n, rtext, "tabled", reason))
                    continue
                out.append(Site(f, n, rtext, "OPEN",
                                f"`{unparse(n)}` may dereference an unresolvable/cyclic alias: no `not {rtext}.is_alias` test dominates it and no "
                                "handler for AliasResolutionError and CyclicAliasError covers it"))
        return out


def dealiased(fn: FunctionInfo, site: ast.AST, rtext: str) -> bool:
    """Every path to the site passes `if R.is_alias: R = R.final_target` that sits inside a handler for both alias errors."""
    cfg = cfg_of(fn)
    tests = []
    for n in cfg.live_nodes():
        if n.kind == "test" and isinstance(n.stmt, ast.If) and n.expr is not None and unparse(n.expr) == f"{rtext}.is_alias":
            body = n.stmt.body
            if any(isinstance(b, ast.Assign) and unparse(b.targets[0]) == rtext and unparse(b.value) in (f"{rtext}.final_target",) for b in body):
                if catches_both(enclosing_catch(n.stmt)):
                    tests.append(n)
    if not tests:
        return False
    nodes = node_index(fn).get(id(site), [])
    return bool(nodes) and all(cfg.dominated_by_node(x, lambda y: y in tests) for x in nodes)


def isinstance_narrowed(fn: FunctionInfo, site: ast.AST, rtext: str) -> bool:
    # short circuit inside one expression: `isinstance(R, T) and R.attr ...`
    from sa.srcmodel import ancestors

    child: ast.AST = site
    for anc in ancestors(site):
        if isinstance(anc, ast.BoolOp) and isinstance(anc.op, ast.And):
            for v in anc.values:
                if v is child or any(x is child for x in ast.walk(v)):
                    break
                if isinstance(v, ast.Call) and dotted(v.func) == "isinstance" and len(v.args) == 2 and unparse(v.args[0]) == rtext and "Alias" not in unparse(v.args[1]):
                    return True
        if isinstance(anc, (ast.stmt, ast.Lambda, ast.ListComp, ast.SetComp, ast.DictComp, ast.GeneratorExp)):
            break
        child = anc
    cfg = cfg_of(fn)
    nodes = node_index(fn).get(id(site), [])
    for n in nodes:
        ok = cfg.dominated_by_fact(n, lambda a, t: t and isinstance(a, ast.Call) and dotted(a.func) == "isinstance" and len(a.args) == 2
                                   and unparse(a.args[0]) == rtext and "Alias" not in unparse(a.args[1]))
        if not ok:
            return False
    return bool(nodes)
