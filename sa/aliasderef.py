"""Shared A-EX helper: dereference sites of possibly-alias members.

`Alias` proxies most attributes to `final_target`, which raises AliasResolutionError / CyclicAliasError for
unresolvable or cyclic aliases.  The set of *raising* proxies is computed by exception-flow analysis of the Alias
class itself (not listed by hand).  A site `R.attr` with `attr` raising and `R` possibly an alias is discharged when
  * `R`'s static type excludes Alias, or R is `self`;
  * it is dominated by `R.is_alias` being false (CFG facts, short-circuit operands, comprehension filters);
  * `R` is narrowed by `isinstance(R, <non-alias class>)`;
  * it is inside a handler / suppress for both error types (or a common base);
  * `R` was replaced by its final target under such a handler on every path (`if R.is_alias: R = R.final_target`);
  * the caller tabled it with a reason.
"""

from __future__ import annotations

import ast
from dataclasses import dataclass

from sa.callgraph import CallGraph
from sa.cfg import handler_types, suppress_types
from sa.excflow import ExcFlow
from sa.util import canon_text
from sa.srcmodel import AnalysisError, FunctionInfo, Program, ancestors, dotted, unparse, walk_no_nested
from sa.util import cfg_of, node_index

AE = {"AliasResolutionError", "CyclicAliasError"}
CATCH_ALL = {"GriffeError", "ResolutionError", "Exception", "BaseException"}


def enclosing_catch(node: ast.AST) -> set[str]:
    got: set[str] = set()
    child = node
    for anc in ancestors(node):
        if isinstance(anc, ast.Try) and any(child is s for s in anc.body):
            for h in anc.handlers:
                for t in handler_types(h) or ["BaseException"]:
                    got.add(t.split(".")[-1])
        if isinstance(anc, (ast.With, ast.AsyncWith)) and any(child is s for s in anc.body):
            for it in anc.items:
                t = suppress_types(it)
                if t:
                    got |= {x.split(".")[-1] for x in t}
        if isinstance(anc, (ast.FunctionDef, ast.AsyncFunctionDef)):
            break
        child = anc
    return got


def catches_both(got: set[str]) -> bool:
    return AE <= got or bool(got & CATCH_ALL)


@dataclass
class Site:
    fn: FunctionInfo
    node: ast.Attribute
    receiver: str
    status: str  # guarded | handled | narrowed | dealiased | tabled | OPEN
    reason: str


class AliasDeref:
    def __init__(self, prog: Program, cg: CallGraph) -> None:
        self.prog = prog
        self.cg = cg
        self.alias = prog.cls("_griffe.models.Alias")
        alias = self.alias

        def skip_parent(_fn, callee, site):
            recv = site.func.value if isinstance(site, ast.Call) and isinstance(site.func, ast.Attribute) else (
                site.value if isinstance(site, ast.Attribute) else None)
            return recv is not None and unparse(recv) in ("self.parent", "self._parent") and callee.cls is alias

        self.ef = ExcFlow(prog, cg, None, skip_callee=skip_parent)
        roots = [f for c in prog.mro(alias) for defs in c.methods.values() for f in defs]
        self.ef.compute(roots)
        names: set[str] = set()
        for c in prog.mro(alias):
            names |= set(c.methods)
        self.raising: set[str] = set()
        for n in names:
            for f in prog.lookup_method(alias, n):
                if not f.is_setter and set(self.ef.escapes(f)) & AE:
                    self.raising.add(n)
        self.safe = names - self.raising
        # property setters of Alias that dereference the target: `x.attr = v` on a possibly-alias receiver raises like a load does
        self.raising_setters: set[str] = set()
        for n in names:
            for f in prog.lookup_method(alias, n):
                if f.is_setter and set(self.ef.escapes(f)) & AE:
                    self.raising_setters.add(n)
        if len(self.raising) < 40:
            raise AnalysisError(f"only {len(self.raising)} raising Alias proxies computed (expected >= 40): exception-flow summaries broke")

    def alias_facts(self, fn: FunctionInfo, node: ast.AST) -> set[tuple[str, bool]]:
        return self.ef._alias_facts(fn, node)

    def scan(self, fns: list[FunctionInfo], tabled: dict[tuple[str, str], str], *, object_may_be_alias: bool = False) -> list[Site]:
        out: list[Site] = []
        for f in fns:
            for n in walk_no_nested(f.node):
                if not (isinstance(n, ast.Attribute) and ((isinstance(n.ctx, ast.Load) and n.attr in self.raising) or
                                                          (isinstance(n.ctx, ast.Store) and n.attr in self.raising_setters))):
                    continue
                recv = n.value
                rtext = unparse(recv)
                types = self.cg.type_of(f, recv)
                # an annotation that names the base class `Object` does not exclude aliases (they stand in for objects everywhere): only a
                # specific class (Module, Class, Parameter, ...) does
                if (types and self.alias not in types and not (object_may_be_alias and any(t.name == "Object" for t in types))) or rtext == "self":
                    continue
                facts = set(self.alias_facts(f, n))
                # earlier operands of the same `and` / `or` / conditional expression: `not x.is_alias and x.is_module`
                from sa.rules.C12 import _short_circuit_facts

                facts |= {(unparse(a.value), t) for a, t in _short_circuit_facts(n) if isinstance(a, ast.Attribute) and a.attr == "is_alias"}
                if (rtext, False) in facts:
                    out.append(Site(f, n, rtext, "guarded", f"dominated by `not {rtext}.is_alias`"))
                    continue
                if isinstance_narrowed(f, n, rtext):
                    out.append(Site(f, n, rtext, "narrowed", "receiver narrowed by isinstance to a non-alias class"))
                    continue
                if catches_both(enclosing_catch(n)):
                    out.append(Site(f, n, rtext, "handled", "inside a handler for both alias errors"))
                    continue
                if isinstance(n.ctx, ast.Store):
                    needed = set()
                    for sf in self.prog.lookup_method(self.alias, n.attr):
                        if sf.is_setter:
                            needed |= set(self.ef.escapes(sf)) & AE
                    got = enclosing_catch(n)
                    if needed and (needed <= got or got & {"Exception", "BaseException"}):
                        out.append(Site(f, n, rtext, "handled", f"inside a handler for what the setter raises ({sorted(needed)})"))
                        continue
                if dealiased(f, n, rtext):
                    out.append(Site(f, n, rtext, "dealiased", f"`{rtext}` replaced by its final target under a handler on every path"))
                    continue
                reason = tabled.get((f.qualname, canon_text(f, n)))  # tables are written with canonical names (see sa.util.canon_names)
                if reason is not None:
                    out.append(Site(f, n, rtext, "tabled", reason))
                    continue
                out.append(Site(f, n, rtext, "OPEN",
                                f"`{unparse(n)}` may dereference an unresolvable/cyclic alias: no `not {rtext}.is_alias` test dominates it and no "
                                "handler for AliasResolutionError and CyclicAliasError covers it"))
        return out


def dealiased(fn: FunctionInfo, site: ast.AST, rtext: str) -> bool:
    """Every path to the site passes `if R.is_alias: R = R.final_target` that sits inside a handler for both alias errors."""
    cfg = cfg_of(fn)
    tests = []
    for n in cfg.live_nodes():
        if n.kind == "test" and isinstance(n.stmt, ast.If) and n.expr is not None and unparse(n.expr) == f"{rtext}.is_alias":
            body = n.stmt.body
            if any(isinstance(b, ast.Assign) and unparse(b.targets[0]) == rtext and unparse(b.value) in (f"{rtext}.final_target",) for b in body):
                if catches_both(enclosing_catch(n.stmt)):
                    tests.append(n)
    if not tests:
        return False
    nodes = node_index(fn).get(id(site), [])
    return bool(nodes) and all(cfg.dominated_by_node(x, lambda y: y in tests) for x in nodes)


def isinstance_narrowed(fn: FunctionInfo, site: ast.AST, rtext: str) -> bool:
    # short circuit inside one expression: `isinstance(R, T) and R.attr ...`
    from sa.srcmodel import ancestors

    child: ast.AST = site
    for anc in ancestors(site):
        if isinstance(anc, ast.BoolOp) and isinstance(anc.op, ast.And):
            for v in anc.values:
                if v is child or any(x is child for x in ast.walk(v)):
                    break
                if isinstance(v, ast.Call) and dotted(v.func) == "isinstance" and len(v.args) == 2 and unparse(v.args[0]) == rtext and "Alias" not in unparse(v.args[1]):
                    return True
        if isinstance(anc, (ast.stmt, ast.Lambda, ast.ListComp, ast.SetComp, ast.DictComp, ast.GeneratorExp)):
            break
        child = anc
    cfg = cfg_of(fn)
    nodes = node_index(fn).get(id(site), [])
    for n in nodes:
        ok = cfg.dominated_by_fact(n, lambda a, t: t and isinstance(a, ast.Call) and dotted(a.func) == "isinstance" and len(a.args) == 2
                                   and unparse(a.args[0]) == rtext and "Alias" not in unparse(a.args[1]))
        if not ok:
            return False
    return bool(nodes)
