"""Regex safety lint on the parsed pattern (stdlib `re._parser` AST): no ambiguous unbounded repeat nested inside an unbounded repeat.

For an outer repeat O with unbounded maximum whose body contains an unbounded inner repeat I, backtracking is exponential when
the text matched by I can be split differently across iterations of O.  Sufficient syntactic condition checked here: within O's
body B = P . I . S (one alternative of B), the characters that can follow I when O iterates again
    follow = first(S)  U  (S nullable ? first(B)) )
intersect the characters I itself consumes.  Character sets are evaluated on a sample alphabet.
"""

from __future__ import annotations

import re
import re._constants as C  # type: ignore[import-not-found]
import re._parser as P  # type: ignore[import-not-found]
import string

ALPHABET = list(string.printable) + ["é", "ß", "中", " ", "\x00", "\x7f"]
MAXREPEAT = C.MAXREPEAT


def _in_matches(av, ch: str, flags: int) -> bool:
    neg = False
    hit = False
    for op, a in av:
        if op is C.NEGATE:
            neg = True
        elif op is C.LITERAL:
            hit = hit or ord(ch) == a or (flags & re.IGNORECASE and ch.lower() == chr(a).lower())
        elif op is C.RANGE:
            lo, hi = a
            alts = [ch] + ([x for x in (ch.lower(), ch.upper()) if len(x) == 1] if flags & re.IGNORECASE else [])
            hit = hit or any(lo <= ord(x) <= hi for x in alts)
        elif op is C.CATEGORY:
            hit = hit or _category(a, ch)
    return hit != neg


def _category(cat, ch: str) -> bool:
    name = str(cat)
    table = {
        "CATEGORY_DIGIT": ch.isdigit(), "CATEGORY_NOT_DIGIT": not ch.isdigit(),
        "CATEGORY_SPACE": ch.isspace(), "CATEGORY_NOT_SPACE": not ch.isspace(),
        "CATEGORY_WORD": ch.isalnum() or ch == "_", "CATEGORY_NOT_WORD": not (ch.isalnum() or ch == "_"),
    }
    return table.get(name, True)


def chars_of_item(item, flags: int) -> set[str] | None:
    """Characters a single-character item can match (None if the item is not single-character)."""
    op, av = item
    if op is C.LITERAL:
        return {c for c in ALPHABET if ord(c) == av or (flags & re.IGNORECASE and c.lower() == chr(av).lower())}
    if op is C.NOT_LITERAL:
        return {c for c in ALPHABET if ord(c) != av}
    if op is C.ANY:
        return {c for c in ALPHABET if c != "\n" or flags & re.DOTALL}
    if op is C.IN:
        return {c for c in ALPHABET if _in_matches(av, c, flags)}
    if op is C.CATEGORY:
        return {c for c in ALPHABET if _category(av, c)}
    return None


def nullable(seq, flags: int) -> bool:
    return all(_nullable_item(it, flags) for it in seq)


def _nullable_item(item, flags: int) -> bool:
    op, av = item
    if op in (C.AT, C.ASSERT, C.ASSERT_NOT, C.GROUPREF_EXISTS):
        return True
    if op in (C.MAX_REPEAT, C.MIN_REPEAT, getattr(C, "POSSESSIVE_REPEAT", None)):
        lo, _hi, body = av
        return lo == 0 or nullable(body, flags)
    if op is C.SUBPATTERN:
        return nullable(av[3], flags)
    if op is getattr(C, "ATOMIC_GROUP", None):
        return nullable(av, flags)
    if op is C.BRANCH:
        return any(nullable(alt, flags) for alt in av[1])
    if op is C.GROUPREF:
        return True
    return False


def first(seq, flags: int) -> set[str]:
    out: set[str] = set()
    for it in seq:
        out |= _first_item(it, flags)
        if not _nullable_item(it, flags):
            break
    return out


def _first_item(item, flags: int) -> set[str]:
    op, av = item
    cs = chars_of_item(item, flags)
    if cs is not None:
        return cs
    if op in (C.MAX_REPEAT, C.MIN_REPEAT, getattr(C, "POSSESSIVE_REPEAT", None)):
        return first(av[2], flags)
    if op is C.SUBPATTERN:
        return first(av[3], flags)
    if op is getattr(C, "ATOMIC_GROUP", None):
        return first(av, flags)
    if op is C.BRANCH:
        out: set[str] = set()
        for alt in av[1]:
            out |= first(alt, flags)
        return out
    if op is C.GROUPREF:
        return set(ALPHABET)
    return set()


def all_chars(seq, flags: int) -> set[str]:
    out: set[str] = set()
    for it in seq:
        op, av = it
        cs = chars_of_item(it, flags)
        if cs is not None:
            out |= cs
        elif op in (C.MAX_REPEAT, C.MIN_REPEAT, getattr(C, "POSSESSIVE_REPEAT", None)):
            out |= all_chars(av[2], flags)
        elif op is C.SUBPATTERN:
            out |= all_chars(av[3], flags)
        elif op is C.BRANCH:
            for alt in av[1]:
                out |= all_chars(alt, flags)
        elif op is C.GROUPREF:
            out |= set(ALPHABET)
    return out


def _alternatives(seq):
    """Flatten a body into its top-level alternatives (each a sequence), looking through non-repeating groups."""
    if len(seq) == 1:
        op, av = seq[0]
        if op is C.BRANCH:
            out = []
            for alt in av[1]:
                out += _alternatives(list(alt))
            return out
        if op is C.SUBPATTERN:
            return _alternatives(list(av[3]))
    return [list(seq)]


def _inline(seq):
    """Expand non-repeating groups in a sequence so nested repeats become visible at the sequence level."""
    out = []
    for it in seq:
        op, av = it
        if op is C.SUBPATTERN and not any(x[0] is C.BRANCH for x in av[3]):
            out += _inline(list(av[3]))
        else:
            out.append(it)
    return out


def findings(pattern: str, flags: int = 0) -> list[str]:
    """Human-readable findings for `pattern` (empty = no ambiguous nested unbounded repeat)."""
    tree = P.parse(pattern, flags)
    flags = tree.state.flags if hasattr(tree, "state") else flags
    out: list[str] = []

    def walk(seq, outer_unbounded_body=None):
        for it in seq:
            op, av = it
            if op in (C.MAX_REPEAT, C.MIN_REPEAT):
                lo, hi, body = av
                unbounded = hi is MAXREPEAT or (isinstance(hi, int) and hi >= 16)
                if unbounded:
                    check_outer(list(body))
                walk(list(body))
            elif op is C.SUBPATTERN:
                walk(list(av[3]))
            elif op is C.BRANCH:
                for alt in av[1]:
                    walk(list(alt))
            elif op in (C.ASSERT, C.ASSERT_NOT):
                walk(list(av[1]))

    def check_outer(body):
        body_first = first(body, flags)
        alts = _alternatives(body)
        # overlapping alternatives inside a loop: (a|a)*, (\w|\d)+
        if len(alts) > 1:
            for i in range(len(alts)):
                for j in range(i + 1, len(alts)):
                    fi, fj = first(alts[i], flags), first(alts[j], flags)
                    single = all(len(a) == 1 and chars_of_item(a[0], flags) is not None for a in (alts[i], alts[j]))
                    if single and fi & fj:
                        out.append(f"alternatives of a repeated group overlap on {sorted(fi & fj)[:3]}")
        for alt in alts:
            seqi = _inline(alt)
            for k, it in enumerate(seqi):
                op, av = it
                if op in (C.MAX_REPEAT, C.MIN_REPEAT):
                    lo, hi, inner = av
                    if not (hi is MAXREPEAT or (isinstance(hi, int) and hi >= 16)):
                        continue
                    suffix = seqi[k + 1:]
                    follow = first(suffix, flags)
                    if nullable(suffix, flags):
                        follow |= body_first
                    consumed = all_chars(list(inner), flags)
                    inter = follow & consumed
                    if inter:
                        out.append(f"unbounded repeat nested in an unbounded repeat can be split ambiguously (characters such as {sorted(inter)[:3]!r} may "
                                   "end the inner repeat or continue it): exponential backtracking on non-matching input")
    walk(list(tree))
    return out
