"""A-LV: difference-bound facts for integer cursors (loop progress and list-index safety) on the statement CFG.

Two forward dataflow analyses over one function:

* **progress**  - for a `while` loop whose test mentions cursor `x`: with x = head value + 0 at body entry, every edge back to the loop
  head must carry x >= head value + 1.  Values are lower bounds relative to the head value (None = unknown).  A call
  `..., x = f(..., offset=E)` contributes `lb(E) + summary(f)`, where `summary(f)` is the least `returned offset - offset parameter`
  over f's return statements, computed by the same analysis (memoised, recursion -> unknown).
* **slack**     - for index sites `L[x + c]`: the state maps cursor variables to `s` with the meaning `x + s < len(L)`; branch facts such as
  `x < len(L)`, `x + 1 < len(L)`, `x < len(L) - 2`, `x >= len(L)` (false branch), `x == len(L) - 1` (false branch, with s == 0) establish it,
  assignments shift or kill it.  The site is safe when s >= c (short-circuit operands and named booleans are taken into account), when
  it sits in a handler for IndexError, or in the tabled skip-blank-lines loop (`while is_blank(L[x]): x += 1`), which relies on the data
  invariant "the last line of a docstring is not blank".
"""

from __future__ import annotations

import ast
from typing import Callable

from sa.cfg import CFG, CNode, implied
from sa.srcmodel import FunctionInfo, Program, dotted, unparse, walk_no_nested
from sa.util import cfg_of, node_index, stores_of

INF = 10**6


def _const_int(node: ast.AST | None) -> int | None:
    if isinstance(node, ast.Constant) and isinstance(node.value, int) and not isinstance(node.value, bool):
        return node.value
    if isinstance(node, ast.UnaryOp) and isinstance(node.op, ast.USub):
        v = _const_int(node.operand)
        return -v if v is not None else None
    return None


def linear(node: ast.AST | None) -> tuple[str, int] | None:
    """`x`, `x + c`, `x - c`, `c + x` -> (x, c)."""
    if isinstance(node, ast.Name):
        return node.id, 0
    if isinstance(node, ast.BinOp) and isinstance(node.op, (ast.Add, ast.Sub)):
        l, r = node.left, node.right
        lc, rc = _const_int(l), _const_int(r)
        if isinstance(node.op, ast.Add):
            if rc is not None and (lin := linear(l)):
                return lin[0], lin[1] + rc
            if lc is not None and (lin := linear(r)):
                return lin[0], lin[1] + lc
        elif rc is not None and (lin := linear(l)):
            return lin[0], lin[1] - rc
    return None


def _LEN_OF(node: ast.AST) -> tuple[str, int] | None:
    return _len_of(node)


def _len_of(node: ast.AST) -> tuple[str, int] | None:
    """`len(L)`, `len(L) - c`, `len(L) + c` -> (L, c)."""
    if isinstance(node, ast.Call) and isinstance(node.func, ast.Name) and node.func.id == "len" and len(node.args) == 1:
        return unparse(node.args[0]), 0
    if isinstance(node, ast.BinOp) and isinstance(node.op, (ast.Add, ast.Sub)):
        base = _len_of(node.left)
        c = _const_int(node.right)
        if base and c is not None:
            return base[0], base[1] + (c if isinstance(node.op, ast.Add) else -c)
    return None


# ---------------------------------------------------------------------------------------------- generic forward dataflow
def forward(cfg: CFG, starts: list[tuple[CNode, dict]], transfer: Callable[[CNode, dict], dict], edge: Callable[[CNode, CNode, str, dict], dict | None],
            join: Callable[[dict, dict], dict], stop: Callable[[CNode], bool] | None = None, max_rounds: int = 40) -> tuple[dict[CNode, dict], list[tuple[CNode, CNode, dict]]]:
    """Returns (state at node entry, states carried by edges into `stop` nodes)."""
    state_in: dict[CNode, dict] = {}
    into_stop: list[tuple[CNode, CNode, dict]] = []
    work = []
    for n, st in starts:
        state_in[n] = st
        work.append(n)
    visits: dict[CNode, int] = {}
    while work:
        n = work.pop(0)
        visits[n] = visits.get(n, 0) + 1
        out = transfer(n, dict(state_in[n]))
        for b, label in cfg.succ[n]:
            if label == "exc":
                continue
            st = edge(n, b, label, dict(out))
            if st is None:
                continue
            if stop is not None and stop(b):
                into_stop.append((n, b, st))
                continue
            if b not in state_in:
                state_in[b] = st
                work.append(b)
            else:
                merged = join(state_in[b], st)
                if merged != state_in[b]:
                    if visits.get(b, 0) > max_rounds:
                        merged = {k: None for k in merged}  # widening: give up on everything
                        if merged == state_in[b]:
                            continue
                    state_in[b] = merged
                    if b not in work:
                        work.append(b)
    return state_in, into_stop


def _join_min(a: dict, b: dict) -> dict:
    out = {}
    for k in set(a) | set(b):
        va, vb = a.get(k), b.get(k)
        out[k] = None if va is None or vb is None else min(va, vb)
    return out


# ---------------------------------------------------------------------------------------------- progress
class Progress:
    def __init__(self, prog: Program, cursor_kw: str = "offset") -> None:
        self.prog = prog
        self.cursor_kw = cursor_kw
        self._summary: dict[str, int | None] = {}
        self._active: set[str] = set()

    def _assign(self, fn: FunctionInfo, stmt: ast.stmt, st: dict) -> dict:
        if isinstance(stmt, ast.AugAssign) and isinstance(stmt.target, ast.Name):
            c = _const_int(stmt.value)
            x = stmt.target.id
            if x in st:
                if c is not None and isinstance(stmt.op, (ast.Add, ast.Sub)) and st[x] is not None:
                    st[x] = st[x] + (c if isinstance(stmt.op, ast.Add) else -c) * self.__dict__.get("_sign", 1)
                else:
                    st[x] = None
            return st
        if self.__dict__.get("_sign", 1) < 0 and isinstance(stmt, (ast.Assign, ast.AnnAssign)) and stmt.value is not None:
            # a cursor that walks down: only `x -= c` is followed, any other assignment to a tracked name loses it
            for t in (stmt.targets if isinstance(stmt, ast.Assign) else [stmt.target]):
                for nm in ast.walk(t):
                    if isinstance(nm, ast.Name) and nm.id in st:
                        lin = linear(stmt.value)
                        st[nm.id] = (st[lin[0]] - lin[1]) if (lin and lin[0] in st and st[lin[0]] is not None and isinstance(t, ast.Name)) else None
            return st
        if isinstance(stmt, (ast.Assign, ast.AnnAssign)) and stmt.value is not None:
            targets = stmt.targets if isinstance(stmt, ast.Assign) else [stmt.target]
            for t in targets:
                if isinstance(t, ast.Name):
                    st[t.id] = self._value(fn, stmt.value, st)
                    for k in [k for k in st if isinstance(k, tuple) and k[0] == "rec" and k[1] == t.id]:
                        del st[k]
                    if isinstance(stmt.value, ast.Call):
                        # record-valued call: remember the bound of every field some later `t.field` may read
                        for node in walk_no_nested(fn.node):
                            if isinstance(node, ast.Attribute) and isinstance(node.value, ast.Name) and node.value.id == t.id:
                                lb = self._call_lb(fn, stmt.value, st, field=node.attr)
                                if lb is not None:
                                    st[("rec", t.id, node.attr)] = lb
                elif isinstance(t, ast.Tuple):
                    vals = self._tuple_value(fn, stmt.value, st, len(t.elts))
                    for e, v in zip(t.elts, vals):
                        if isinstance(e, ast.Name):
                            st[e.id] = v
            return st
        # walrus inside tests etc. not used for cursors
        return st

    def _value(self, fn: FunctionInfo, expr: ast.expr, st: dict) -> int | None:
        lin = linear(expr)
        if lin and lin[0] in st and st[lin[0]] is not None:
            return st[lin[0]] + lin[1]
        if isinstance(expr, ast.IfExp):
            a, b = self._value(fn, expr.body, st), self._value(fn, expr.orelse, st)
            return None if a is None or b is None else min(a, b)
        if isinstance(expr, ast.Call):
            return self._call_lb(fn, expr, st)
        if isinstance(expr, ast.Attribute) and isinstance(expr.value, ast.Name):
            # `parsed.next_index` where `parsed = f(..., offset)`: handled through the record summary
            rec = st.get(("rec", expr.value.id, expr.attr))
            if rec is not None:
                return rec
        return None

    def _tuple_value(self, fn: FunctionInfo, expr: ast.expr, st: dict, n: int) -> list[int | None]:
        out: list[int | None] = [None] * n
        if isinstance(expr, ast.Call):
            lb = self._call_lb(fn, expr, st)
            if lb is not None:
                out[-1] = lb  # readers return (value, offset)
        elif False:
            pass
        elif isinstance(expr, ast.Tuple) and len(expr.elts) == n:
            out = [self._value(fn, e, st) for e in expr.elts]
        return out

    def cursor_arg(self, call: ast.Call, callees: list[FunctionInfo]) -> ast.expr | None:
        for kw in call.keywords:
            if kw.arg == self.cursor_kw:
                return kw.value
        for g in callees:
            a = g.node.args
            pos = [x.arg for x in (*a.posonlyargs, *a.args)]
            if g.cls is not None and pos and pos[0] in ("self", "cls"):
                pos = pos[1:]
            if self.cursor_kw in pos and pos.index(self.cursor_kw) < len(call.args):
                return call.args[pos.index(self.cursor_kw)]
        return None

    def _call_lb(self, fn: FunctionInfo, call: ast.Call, st: dict, field: str | None = None) -> int | None:
        callees = self._callees(fn, call)
        if not callees:
            return None
        arg = self.cursor_arg(call, callees)
        if arg is None:
            return None
        base = self._value(fn, arg, st)
        if base is None:
            return None
        sums = [self.summary(g, field) for g in callees]
        if any(s is None for s in sums):
            return None
        return base + min(sums)  # type: ignore[type-var]

    def _callees(self, fn: FunctionInfo, call: ast.Call) -> list[FunctionInfo]:
        from sa.callgraph import CallGraph

        memo = self.__dict__.setdefault("_callee_memo", {})
        if id(call) in memo and memo[id(call)][0] is call:
            return memo[id(call)][1]
        if "_cg" not in self.__dict__:
            self._cg = CallGraph(self.prog)
        cg = self._cg
        out = [c for c, kind in cg.callees_of_call(fn, call) if isinstance(c, FunctionInfo) and kind != "cha"]
        if not out and isinstance(call.func, ast.Attribute):
            # `record.reader(...)`: a function stored in a field of a record class.  Field-based resolution: every function that any constructor
            # call of a class declaring that field (restricted to the receiver's class when it is known) puts into it, anywhere in the program.
            attr = call.func.attr
            known = {c.qualname for c in cg.type_of(fn, call.func.value)}
            holders = [c for c in self.prog.classes.values() if attr in c.class_annots and (not known or c.qualname in known)]
            if holders:
                ctor_index = self.__dict__.get("_ctor_index")
                if ctor_index is None:
                    ctor_index = self._ctor_index = {}
                    for mod in self.prog.modules.values():
                        for n in ast.walk(mod.tree):
                            if isinstance(n, ast.Call) and dotted(n.func):
                                full = self.prog.resolve(mod, dotted(n.func))
                                if full in self.prog.classes:
                                    ctor_index.setdefault(full, []).append((mod, n))
                for c in holders:
                    fields = list(c.class_annots)
                    for mod, el in ctor_index.get(c.qualname, []):
                        cand = []
                        if fields.index(attr) < len(el.args):
                            cand.append(el.args[fields.index(attr)])
                        cand += [k.value for k in el.keywords if k.arg == attr]
                        for a in cand:
                            full = self.prog.resolve(mod, dotted(a) or "") if dotted(a) else None
                            if full in self.prog.functions:
                                out.append(self.prog.functions[full])
        res = list(dict.fromkeys(out))
        memo[id(call)] = (call, res)
        return res

    def summary(self, g: FunctionInfo, field: str | None = None) -> int | None:
        """Least (returned offset - offset parameter) over g's returns; None when unknown.

        With `field`, g returns a record built by a constructor call and the bound is that of the named field."""
        memo = f"{g.qualname}#{field or ''}"
        if memo in self._summary:
            return self._summary[memo]
        if memo in self._active or self.cursor_kw not in g.params:
            return None
        self._active.add(memo)
        try:
            cfg = cfg_of(g)
            init = {self.cursor_kw: 0}
            state_in, _ = forward(cfg, [(cfg.entry, init)], lambda n, s: self._transfer(g, n, s), lambda a, b, lab, s: s, _join_min)
            best: int | None = INF
            for n in cfg.live_nodes():
                if n.kind == "return" and n in state_in:
                    v = n.expr
                    st = state_in[n]
                    if field is not None:
                        lb = None
                        if isinstance(v, ast.Call):
                            full = self.prog.resolve(g.module, dotted(v.func) or "")
                            if full in self.prog.classes:
                                names = list(self.prog.classes[full].class_annots)
                                if field in names and names.index(field) < len(v.args):
                                    lb = self._value(g, v.args[names.index(field)], st)
                                for kw in v.keywords:
                                    if kw.arg == field:
                                        lb = self._value(g, kw.value, st)
                    elif isinstance(v, ast.Tuple) and v.elts:
                        lb = self._value(g, v.elts[-1], st)
                    elif isinstance(v, ast.Call):
                        lb = self._call_lb(g, v, st)  # `return reader(...)`
                    else:
                        lb = self._value(g, v, st) if v is not None else None
                    if lb is None:
                        best = None
                        break
                    best = min(best, lb)
            if best == INF:
                best = None
            self._summary[memo] = best
            return best
        finally:
            self._active.discard(memo)

    def _transfer(self, fn: FunctionInfo, n: CNode, st: dict) -> dict:
        if n.kind == "stmt" and n.stmt is not None:
            return self._assign(fn, n.stmt, st)
        if n.kind == "for" and isinstance(n.stmt, ast.For):
            for t in ast.walk(n.stmt.target):
                if isinstance(t, ast.Name) and t.id in st:
                    st[t.id] = None
        return st

    def loop_progress(self, fn: FunctionInfo, head: CNode) -> list[tuple[str, bool, str]]:
        """For a while-loop head: [(cursor, ok, detail)] per cursor variable named in its test."""
        cfg = cfg_of(fn)
        assert isinstance(head.stmt, ast.While)
        names = [n.id for n in ast.walk(head.stmt.test) if isinstance(n, ast.Name)]
        assigned = {t.id for s in ast.walk(head.stmt) for t in ast.walk(s) if isinstance(t, ast.Name) and isinstance(t.ctx, ast.Store)}
        cursors = [x for x in dict.fromkeys(names) if x in assigned]
        out = []
        body_starts = [b for b, lab in cfg.succ[head] if lab == "T"]
        # direction: a cursor the test bounds from below (`x > e`, `x >= e`, `e < x` with e not assigned in the loop) walks down
        down: set[str] = set()
        for atom, truth in implied(head.stmt.test, True):
            if isinstance(atom, ast.Compare) and len(atom.ops) == 1 and truth:
                l_, r_, op = atom.left, atom.comparators[0], atom.ops[0]
                lo = None
                if isinstance(op, (ast.Gt, ast.GtE)) and isinstance(l_, ast.Name):
                    lo = (l_.id, r_)
                elif isinstance(op, (ast.Lt, ast.LtE)) and isinstance(r_, ast.Name):
                    lo = (r_.id, l_)
                if lo is not None and not ({n.id for n in ast.walk(lo[1]) if isinstance(n, ast.Name)} & assigned):
                    down.add(lo[0])
        for x in cursors:
            init = {x: 0}
            self._sign = -1 if x in down else 1
            _state, back = forward(cfg, [(b, dict(init)) for b in body_starts], lambda n, s: self._transfer(fn, n, s), lambda a, b, lab, s: s, _join_min,
                                   stop=lambda n: n is head)
            if not back:
                self._sign = 1
                out.append((x, True, "no path returns to the loop head"))
                continue
            worst = None
            bad_src = None
            for a, _b, st in back:
                v = st.get(x)
                if v is None or v < 1:
                    worst, bad_src = v, a
                    break
            self._sign = 1
            if bad_src is None:
                out.append((x, True, f"every path back to the head {'lowers' if x in down else 'advances'} `{x}` by at least {min(st.get(x) for _a, _b, st in back)}"
                            + (" towards the lower bound in the loop test" if x in down else "")))
            else:
                out.append((x, False, f"a path back to the loop head (through line {bad_src.lineno}) advances `{x}` by "
                                      f"{'an unknown amount' if worst is None else worst}: the loop need not make progress"))
        return out


# ---------------------------------------------------------------------------------------------- slack (index safety)
class Slack:
    def __init__(self, prog: Program, fn: FunctionInfo, assume: dict | None = None, lists: set[str] | None = None) -> None:
        """`assume`: slack facts taken to hold at function entry (caller-established preconditions), {(param, list): s}."""
        self.prog = prog
        self.fn = fn
        self.cfg = cfg_of(fn)
        self.assume = dict(assume or {})
        self.lists = {unparse(n.args[0]) for n in walk_no_nested(fn.node) if isinstance(n, ast.Call) and isinstance(n.func, ast.Name) and n.func.id == "len" and n.args}
        self.lists |= set(lists or ())
        self.skip_heads = self._skip_blank_heads()
        self.state_in: dict[CNode, dict] = {}
        self._run()

    def _skip_blank_heads(self) -> dict[CNode, str]:
        """Loop heads of the shape `while <pred>(L[x]): x += 1` -> x."""
        out = {}
        for n in self.cfg.live_nodes():
            s = n.stmt
            if n.kind == "test" and isinstance(s, ast.While) and isinstance(s.test, ast.Call) and len(s.test.args) == 1 and isinstance(s.test.args[0], ast.Subscript) \
                    and unparse(s.test.args[0].value) in self.lists and isinstance(s.test.args[0].slice, ast.Name) and len(s.body) == 1 \
                    and isinstance(s.body[0], ast.AugAssign) and isinstance(s.body[0].op, ast.Add) and _const_int(s.body[0].value) == 1 \
                    and unparse(s.body[0].target) == unparse(s.test.args[0].slice) and not s.orelse:
                out[n] = unparse(s.test.args[0].slice)
        return out

    # state: {(x, L): slack or None}
    def _facts(self, expr: ast.expr, branch: bool, st: dict) -> dict:
        for atom, truth in implied(expr, branch):
            self._apply_atom(atom, truth, st)
        return st

    def _apply_atom(self, atom: ast.expr, truth: bool, st: dict) -> None:
        if isinstance(atom, ast.Name):
            defs = [s for s in stores_of(self.fn.node, atom.id) if isinstance(s, (ast.Assign, ast.AnnAssign)) and s.value is not None]
            if len(defs) == 1 and isinstance(defs[0].value, (ast.Compare, ast.BoolOp, ast.UnaryOp)):
                # named boolean: valid as long as the cursors it mentions are not reassigned after its definition (checked by the caller's
                # single-assignment discipline: cursors mentioned must have no store between; approximated by same-iteration use)
                for a2, t2 in implied(defs[0].value, truth):
                    if not isinstance(a2, ast.Name):
                        self._apply_atom(a2, t2, st)
            return
        if not (isinstance(atom, ast.Compare) and len(atom.ops) == 1):
            return
        op, left, right = atom.ops[0], atom.left, atom.comparators[0]

        def _len_of(node: ast.AST, st=st) -> tuple[str, int] | None:  # noqa: F811 - `end`, `end - 1` where `end <= len(L) + d` is known
            got = _LEN_OF(node)
            if got is not None:
                return got
            lin_ = linear(node)
            if lin_ is not None and st.get(("len", lin_[0])) is not None:
                L_, d_ = st[("len", lin_[0])][:2]
                inexact.append(not st[("len", lin_[0])][2])
                return L_, d_ + lin_[1]
            return None

        inexact: list[bool] = []
        lin, ln = linear(left), _len_of(right)
        if lin is not None and st.get(("len", lin[0])) is not None and ln is None:
            lin = None  # the alias itself on the left: try the mirrored form
        if lin is None or ln is None:
            # mirrored form len(L) > x
            lin2, ln2 = linear(right), _len_of(left)
            if lin2 is None or ln2 is None:
                return
            flip = {ast.Gt: ast.Lt, ast.GtE: ast.LtE, ast.Lt: ast.Gt, ast.LtE: ast.GtE, ast.Eq: ast.Eq, ast.NotEq: ast.NotEq}
            for k, v in flip.items():
                if isinstance(op, k):
                    op = v()
                    break
            lin, ln = lin2, ln2
        x, c = lin  # x + c  OP  len(L) + d
        L, d = ln
        key = (x, L)
        cur = st.get(key)
        new = None
        if any(inexact) and not ((isinstance(op, (ast.Lt, ast.LtE)) and truth) or (isinstance(op, (ast.Gt, ast.GtE)) and not truth)):
            return  # `x == end`, `x != end` say nothing about len(L) when only `end <= len(L) + d` is known (paths with different d were joined)
        # normalise to  x + s < len(L)
        if isinstance(op, ast.Lt):  # x + c < len + d  <=> x + (c - d) < len
            new = (c - d) if truth else None
        elif isinstance(op, ast.LtE):  # x + c <= len + d <=> x + (c - d - 1) < len
            new = (c - d - 1) if truth else None
        elif isinstance(op, ast.GtE):  # false branch: x + c < len + d
            new = (c - d) if not truth else None
        elif isinstance(op, ast.Gt):  # false branch: x + c <= len + d
            new = (c - d - 1) if not truth else None
        elif isinstance(op, (ast.Eq, ast.NotEq)):
            is_eq = isinstance(op, ast.Eq) == truth
            k = (c - d)  # x + k == len  <=> x == len - k ... i.e. x + (k - 1) < len and not x + k < len
            if is_eq:
                new = k - 1
            elif cur is not None and cur == k - 1:
                new = k  # x <= len - k and x != len - k  ->  x + k < len
        if new is not None:
            st[key] = new if cur is None else max(cur, new)

    def _transfer(self, n: CNode, st: dict) -> dict:
        s = n.stmt
        if n.kind == "stmt" and s is not None:
            if isinstance(s, ast.AugAssign) and isinstance(s.target, ast.Name):
                c = _const_int(s.value)
                lk = ("len", s.target.id)
                if lk in st:
                    if st[lk] is not None and c is not None and isinstance(s.op, (ast.Add, ast.Sub)):
                        st[lk] = (st[lk][0], st[lk][1] + (c if isinstance(s.op, ast.Add) else -c), st[lk][2])
                    else:
                        del st[lk]
                for key in list(st):
                    if key[0] == "len":
                        continue
                    if key[0] == s.target.id:
                        st[key] = (st[key] - c) if (st[key] is not None and c is not None and isinstance(s.op, ast.Add)) else (
                            (st[key] + c) if (st[key] is not None and c is not None and isinstance(s.op, ast.Sub)) else None)
            elif isinstance(s, (ast.Assign, ast.AnnAssign)) and s.value is not None:
                targets = s.targets if isinstance(s, ast.Assign) else [s.target]
                for t in targets:
                    for nm in [x.id for x in ast.walk(t) if isinstance(x, ast.Name)]:
                        lin = linear(s.value) if isinstance(t, ast.Name) else None
                        for key in list(st):
                            if key[0] == "len":
                                if key[1] == nm or (st[key] is not None and st[key][0] == nm):
                                    del st[key]
                                continue
                            if key[0] == nm:
                                del st[key]
                            if key[1] == nm:
                                del st[key]
                        if isinstance(t, ast.Name) and _LEN_OF(s.value) is not None and _LEN_OF(s.value)[0] in self.lists:
                            st[("len", nm)] = (*_LEN_OF(s.value), True)  # nm == len(L) + d exactly (until paths with different d are joined)
                        if isinstance(t, ast.Name) and isinstance(s.value, ast.Call):
                            ret = self._return_slack(n, s.value, dict(st))
                            if ret is not None:
                                st[(nm, ret[0])] = ret[1]
                        if lin is not None:
                            for key, v in list(st.items()):
                                if key[0] == lin[0] and v is not None:
                                    st[(nm, key[1])] = v - lin[1]
        elif n.kind == "for" and isinstance(s, ast.For):
            for nm in [x.id for x in ast.walk(s.target) if isinstance(x, ast.Name)]:
                for key in list(st):
                    if key[0] == nm or (key[0] == "len" and key[1] == nm):
                        del st[key]
        return st

    def _return_slack(self, cn: CNode, call: ast.Call, st_here: dict) -> tuple[str, int] | None:
        """`x = g(L, e, ...)` with g a module-level function of the repository: (L, s) when every `return r` of g satisfies r + s < len(<its list
        parameter>) given what is known about the arguments at the call (g analysed with those facts as entry assumptions)."""
        if self.__dict__.get("_in_summary", 0) > 2 or not dotted(call.func):
            return None
        g = self.prog.functions.get(self.prog.resolve(self.fn.module, dotted(call.func)) or "")
        if g is None or g.cls is not None or g is self.fn or call.keywords and any(k.arg is None for k in call.keywords):
            return None
        a = g.node.args
        pos = [x.arg for x in (*a.posonlyargs, *a.args)]
        bound = dict(zip(pos, call.args))
        bound.update({k.arg: k.value for k in call.keywords if k.arg})
        list_params = [(p, unparse(v)) for p, v in bound.items() if unparse(v) in self.lists]
        if len(list_params) != 1:
            return None
        lp, L = list_params[0]
        assume = {}
        for p, v in bound.items():
            lin = linear(v)
            if p != lp and lin is not None and st_here.get((lin[0], L)) is not None:
                assume[(p, lp)] = st_here[(lin[0], L)] - lin[1]
        self._in_summary = self.__dict__.get("_in_summary", 0) + 1
        try:
            sub = Slack(self.prog, g, assume, lists={lp})
        finally:
            self._in_summary -= 1
        worst = None
        for rn in sub.cfg.live_nodes():
            if rn.kind != "return" or not isinstance(rn.stmt, ast.Return):
                continue
            lin = linear(rn.stmt.value) if rn.stmt.value is not None else None
            v = (sub.state_in.get(rn) or {}).get((lin[0], lp)) if lin is not None else None
            if v is None:
                return None
            worst = v - lin[1] if worst is None else min(worst, v - lin[1])
        return (L, worst) if worst is not None else None

    def _edge(self, a: CNode, b: CNode, label: str, st: dict) -> dict | None:
        if a in self.skip_heads:
            x = self.skip_heads[a]
            if label == "T":
                return None  # the loop body is summarised: it preserves `x + 0 < len(L)` under the last-line-not-blank invariant
            return st
        if a.kind == "test" and a.expr is not None and label in ("T", "F"):
            return self._facts(a.expr, label == "T", st)
        return st

    @staticmethod
    def _join(a: dict, b: dict) -> dict:
        out = {}
        for k in set(a) & set(b):
            va, vb = a[k], b[k]
            if k[0] == "len":
                if va is not None and vb is not None and va[0] == vb[0]:
                    out[k] = (va[0], max(va[1], vb[1]), va[2] and vb[2] and va[1] == vb[1])  # name <= len(L) + d on both paths: the weaker bound
                continue
            out[k] = None if va is None or vb is None else min(va, vb)
        return out

    def _run(self) -> None:
        self.state_in, _ = forward(self.cfg, [(self.cfg.entry, dict(self.assume))], self._transfer, self._edge, self._join)

    def slack_of(self, call: ast.Call, expr: ast.expr) -> int | None:
        """Slack known for the value of `expr` (x + c) at the call site, over any list."""
        lin = linear(expr)
        if lin is None:
            return None
        best = None
        for cn in node_index(self.fn).get(id(call), []):
            st = self.state_in.get(cn, {})
            vals = [v - lin[1] for (x, _L), v in st.items() if x == lin[0] and v is not None]
            v = max(vals) if vals else None
            if v is None:
                return None
            best = v if best is None else min(best, v)
        return best

    def index_sites(self) -> list[tuple[ast.Subscript, str, int, bool, str]]:
        """(site, cursor, offset c, safe?, why) for every load `L[x + c]` with c >= 0 on a len-compared list."""
        from sa.aliasderef import enclosing_catch
        from sa.srcmodel import parent

        out = []
        idx = node_index(self.fn)
        for n in walk_no_nested(self.fn.node):
            if not (isinstance(n, ast.Subscript) and isinstance(n.ctx, ast.Load) and unparse(n.value) in self.lists):
                continue
            lin = linear(n.slice)
            if lin is None or lin[1] < 0:
                continue
            x, c = lin
            L = unparse(n.value)
            got = enclosing_catch(n)
            if got & {"IndexError", "LookupError", "Exception", "BaseException"}:
                out.append((n, x, c, True, "inside a handler for IndexError"))
                continue
            nodes = idx.get(id(n), [])
            if not nodes:
                continue
            ok_all = True
            why = ""
            for cn in nodes:
                if cn in self.skip_heads and self.skip_heads[cn] == x and c == 0:
                    st = dict(self.state_in.get(cn, {}))
                    s0 = st.get((x, L))
                    good = s0 is not None and s0 >= 0
                    why = "skip-blank loop entered with the cursor in range (relies on: last docstring line is not blank)" if good else \
                        f"skip-blank loop `{unparse(cn.stmt.test)}` is entered without a dominating `{x} < len({L})` check"
                    ok_all = ok_all and good
                    continue
                st = dict(self.state_in.get(cn, {}))
                # short-circuit operands to the left of the site inside the same expression
                child: ast.AST = n
                cur = parent(n)
                while cur is not None and not isinstance(cur, ast.stmt):
                    if isinstance(cur, ast.BoolOp):
                        pos = next((i for i, v in enumerate(cur.values) if v is child), None)
                        if pos:
                            for prev in cur.values[:pos]:
                                self._facts(prev, isinstance(cur.op, ast.And), st)
                    if isinstance(cur, ast.IfExp) and child is not cur.test:
                        self._facts(cur.test, child is cur.body, st)
                    child = cur
                    cur = parent(cur)
                # the branch fact of the test node itself applies to sites in a while/if test only through short-circuit (handled above)
                s0 = st.get((x, L))
                good = s0 is not None and s0 >= c
                if not good:
                    why = f"`{unparse(n)}` needs `{x} + {c} < len({L})`; known on every path: " + (f"`{x} + {s0} < len({L})`" if s0 is not None else "nothing")
                ok_all = ok_all and good
            out.append((n, x, c, ok_all, why or f"`{x} + {c} < len({L})` holds on every path to the site"))
        return out
