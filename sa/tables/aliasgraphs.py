"""C06-R7: every small alias graph, resolved in every order, evaluated on the models' own code.

A graph gives each of N names in one module a definition: a real object, an import of another name (an unresolved alias, possibly of itself or
of something that does not exist), or an alias that was created already linked to another member (what wildcard expansion does).  The
evaluator (sa.absint) builds the graph with the real constructors and `set_member`, then calls `resolve_target()` on the unresolved aliases in
the given order and reads `target` / `final_target` / `resolved` of every alias.  Nothing is imported from `_griffe`.

Obligations per (graph, order):
  total          every call raises nothing but AliasResolutionError / CyclicAliasError and returns within the step budget
  sound          when resolve_target() returns, final_target returns a real object (the whole chain is resolved)
  all-or-nothing when resolve_target() raises, the alias is still unresolved (`resolved` is False)
  complete       an alias whose chain reaches a real object is resolved by resolve_target() (no spurious error)
  fixpoint       resolving everything a second time changes no `resolved` flag and no target
"""

from __future__ import annotations

import itertools
from typing import Iterator

from sa.absint import DepthLimit, Interp, Obj, Raised, StepLimit
from sa.srcmodel import Program

AE = {"AliasResolutionError", "CyclicAliasError"}
M = "_griffe.models"


def graphs(n: int) -> Iterator[tuple]:
    """Definitions of names x0..x{n-1}: ("obj",) | ("imp", j|"missing") | ("linked", j)."""
    choices = []
    for i in range(n):
        c: list[tuple] = [("obj",)]
        c += [("imp", j) for j in range(n)] + [("imp", "missing")]
        c += [("linked", j) for j in range(n) if j != i]
        if n <= 3:
            c += [("through", j) for j in range(n)]  # `from p.xj import y as xi`: the target path goes *through* another name (or through itself)
        choices.append(c)
    for g in itertools.product(*choices):
        # a linked alias needs its target to exist when it is created: links may only point at objects, imports, or earlier links
        if all(d[0] != "linked" or g[d[1]][0] != "linked" or d[1] < i for i, d in enumerate(g)):
            yield g


def reaches_object(g: tuple, i: int) -> bool:
    seen = set()
    while True:
        if i in seen or i == "missing":
            return False
        seen.add(i)
        d = g[i]
        if d[0] == "obj":
            return True
        if d[0] == "through":
            return False  # p.xj.y: objects of this universe have no member y, and an alias on the way leads to one of them or nowhere
        i = d[1]


def fmt(g: tuple) -> str:
    def one(i: int, d: tuple) -> str:
        if d[0] == "obj":
            return f"x{i} = 1"
        t = "missing.y" if d[1] == "missing" else f"p.x{d[1]}"
        if d[0] == "through":
            return f"x{i} -> {t}.y"
        return f"x{i} -> {t}" if d[0] == "imp" else f"x{i} => {t} (created linked)"
    return "; ".join(one(i, d) for i, d in enumerate(g))


class Table:
    def __init__(self, prog: Program) -> None:
        self.prog = prog
        self.it = Interp(prog, max_depth=80, max_steps=200_000)
        self.cc = prog.cls("_griffe.collections.ModulesCollection")

    def new(self, cls: str, *a: object, **k: object) -> Obj:
        return self.it._construct(self.prog.cls(f"{M}.{cls}"), list(a), dict(k))

    def meth(self, o: Obj, name: str):
        return self.prog.lookup_method(o.cls, name)[0]

    def build(self, g: tuple) -> tuple[Obj, list[Obj]]:
        it = self.it
        coll = it._construct(self.cc, [], {})
        p = self.new("Module", "p")
        it.call(self.meth(coll, "set_member"), coll, "p", p)
        members: list[Obj | None] = [None] * len(g)
        for phase in ("obj", "imp", "linked"):
            for i, d in enumerate(g):
                if (d[0] if d[0] != "through" else "imp") != phase:
                    continue
                if phase == "obj":
                    m = self.new("Attribute", f"x{i}")
                elif d[0] == "through":
                    m = self.new("Alias", f"x{i}", f"p.x{d[1]}.y")
                elif phase == "imp":
                    m = self.new("Alias", f"x{i}", "missing.y" if d[1] == "missing" else f"p.x{d[1]}")
                else:
                    m = self.new("Alias", f"x{i}", members[d[1]], parent=p)  # the way expand_wildcards creates its aliases
                it.call(self.meth(p, "set_member"), p, f"x{i}", m)
                members[i] = m
        return coll, members  # type: ignore[return-value]

    def deref(self, a: Obj, attr: str) -> tuple[str, object]:
        try:
            return "ok", self.it.getattr(a, attr)
        except Raised as r:
            return r.exc, None

    def run(self, g: tuple, order: tuple[int, ...]) -> str | None:
        """Returns the first broken obligation, or None."""
        it = self.it
        it.steps = 0
        try:
            _coll, ms = self.build(g)
            for rnd in (1, 2):
                before = [(m.attrs.get("_target") is not None, id(m.attrs.get("_target"))) for m in ms]
                for i in order:
                    a = ms[i]
                    if g[i][0] == "obj":
                        continue
                    was = a.attrs.get("_target") is not None
                    if was and rnd == 1 and g[i][0] == "imp":
                        pass  # resolved as part of another chain: resolving again must be harmless
                    flags_before = {k_ for k_, v_ in a.attrs.items() if k_.startswith("_") and v_ is True}
                    try:
                        it.call(self.meth(a, "resolve_target"), a)
                        outcome = "ok"
                    except Raised as r:
                        outcome = r.exc
                    if outcome != "ok" and outcome not in AE:
                        return f"x{i}.resolve_target() raises {outcome}"
                    left_set = sorted(k_ for k_, v_ in a.attrs.items() if k_.startswith("_") and v_ is True and k_ not in flags_before)
                    if left_set:  # the re-entrancy marker, whatever it is called
                        return f"x{i} is left marked as being resolved ({', '.join(left_set)} still set) after resolve_target()"
                    if outcome == "ok":
                        st, ft = self.deref(a, "final_target")
                        if st != "ok":
                            return f"x{i}.resolve_target() returned, yet x{i}.final_target raises {st}: the chain is only partially resolved"
                        if isinstance(ft, Obj) and ft.cls is not None and ft.cls.name == "Alias":
                            return f"x{i}.final_target is an alias"
                    else:
                        if g[i][0] in ("imp", "through") and a.attrs.get("_target") is not None and not was:
                            return (f"x{i}.resolve_target() raises {outcome}, yet x{i} is left resolved (first link stored, rest of the chain "
                                    "unresolvable): the chain is partially resolved")
                        if reaches_object(g, i):
                            return f"x{i}.resolve_target() raises {outcome} although its chain reaches a real object"
                if rnd == 2:
                    after = [(m.attrs.get("_target") is not None, id(m.attrs.get("_target"))) for m in ms]
                    if after != before:
                        return "resolving a second time changed what was resolved (not a fixpoint)"
            for i, a in enumerate(ms):
                if g[i][0] == "obj":
                    continue
                for attr in ("target", "final_target", "resolved", "kind"):
                    st, _v = self.deref(a, attr)
                    if st != "ok" and (st not in AE or attr in ("resolved", "kind")):
                        return f"x{i}.{attr} raises {st}"
                st, _v = self.deref(a, "final_target")
                if (st == "ok") != reaches_object(g, i):
                    return f"x{i}.final_target {'returns' if st == 'ok' else 'raises ' + st} although its chain {'does not reach' if st == 'ok' else 'reaches'} a real object"
        except StepLimit:
            return "evaluation does not terminate within the step budget (loop or unbounded recursion)"
        except (DepthLimit, RecursionError):
            return f"calls nest deeper than {it.max_depth} frames on a graph of {len(g)} names (unbounded recursion)"
        except Raised as r:
            return f"building or reading the graph raises {r.exc}"
        return None


# --------------------------------------------------------------------------------------------------------------------------------------------
# C06-R8: small packages, the loader's own post-load pipeline (expand_exports, expand_wildcards, resolve_aliases twice)

L = "_griffe.loader.GriffeLoader"


def packages(mods: str) -> Iterator[tuple]:
    """Per module: (definition of x, star import).  x: None | "attr" | ("imp", module) | ("imp", "ext");  star: None | module."""
    per_module = []
    for m in mods:
        xs: list = [None, "attr", ("imp", "ext")] + [("imp", o) for o in mods if o != m]  # the visitor records no alias for `from <itself> import x`
        stars: list = [None, *mods]
        if len(mods) == 2:
            stars += [f"{o}_" for o in mods]  # star import through another name of the module (`from pkg import a as a_` in the package)
        per_module.append([(x, s) for x in xs for s in stars])
    yield from itertools.product(*per_module)


def fmt_pkg(mods: str, g: tuple) -> str:
    out = []
    for m, (x, star) in zip(mods, g):
        lines = []
        if x == "attr":
            lines.append("x = 1")
        elif x is not None:
            lines.append(f"from {'ext' if x[1] == 'ext' else 'pkg.' + x[1]} import x")
        if star:
            lines.append(f"from pkg.{star} import *" + (f"  (pkg/__init__.py: from pkg import {star[0]} as {star})" if star.endswith("_") else ""))
        out.append(f"pkg/{m}.py: " + ("; ".join(lines) or "(empty)"))
    return " | ".join(out)


class PackageTable:
    def __init__(self, prog: Program) -> None:
        from pathlib import PurePosixPath

        self.PP = PurePosixPath
        self.prog = prog
        self.it = Interp(prog, max_depth=120, max_steps=600_000)
        self.cc = prog.cls("_griffe.collections.ModulesCollection")
        self.fns = {n: prog.function(f"{L}.{n}") for n in ("expand_exports", "expand_wildcards", "resolve_aliases")}

    def new(self, cls: str, *a: object, **k: object) -> Obj:
        return self.it._construct(self.prog.cls(f"{M}.{cls}"), list(a), dict(k))

    def setm(self, o: Obj, n: str, v: Obj) -> None:
        self.it.call(self.prog.lookup_method(o.cls, "set_member")[0], o, n, v)

    def build(self, mods: str, g: tuple, exported: bool) -> tuple[Obj, Obj, dict[str, Obj]]:
        coll = self.it._construct(self.cc, [], {})
        pkg = self.new("Module", "pkg", filepath=self.PP("/s/pkg/__init__.py"))
        self.setm(coll, "pkg", pkg)
        ms = {m: self.new("Module", m, filepath=self.PP(f"/s/pkg/{m}.py")) for m in mods}
        for m, o in ms.items():
            self.setm(pkg, m, o)
        for star in {st for _x, st in g if st and st.endswith("_")}:
            self.setm(pkg, star, self.new("Alias", star, f"pkg.{star[0]}", lineno=1, endlineno=1))
            pkg.attrs["imports"][star] = f"pkg.{star[0]}"
        for m, (x, star) in zip(mods, g):
            o = ms[m]
            if x == "attr":
                self.setm(o, "x", self.new("Attribute", "x", lineno=1, endlineno=1))
            elif x is not None:
                tp = "ext.x" if x[1] == "ext" else f"pkg.{x[1]}.x"
                self.setm(o, "x", self.new("Alias", "x", tp, lineno=1, endlineno=1))
                o.attrs["imports"]["x"] = tp
            if star:
                self.setm(o, f"pkg/{star}/*", self.new("Alias", f"pkg/{star}/*", f"pkg.{star}", lineno=2, endlineno=2))
                o.attrs["imports"][f"pkg/{star}/*"] = f"pkg.{star}"
            if exported:
                o.attrs["exports"] = ["x"]
        return coll, pkg, ms

    def aliases(self, ms: dict[str, Obj]) -> list[tuple[str, Obj]]:
        return [(f"pkg.{m}.{n}", v) for m, o in ms.items() for n, v in o.attrs["members"].items() if v.cls is not None and v.cls.name == "Alias"]

    def run(self, mods: str, g: tuple, implicit: bool) -> str | None:
        from sa.absint import Native

        it = self.it
        it.steps = 0
        stage = "building the package"
        try:
            coll, pkg, ms = self.build(mods, g, exported=not implicit)
            keep = [v for _p, v in self.aliases(ms)]  # the aliases the visitor would create (unresolved); expansion adds linked ones later
            imported = {id(v) for v in keep}  # (the list keeps them alive, so an id is never reused by a later object)
            loader = Obj(self.prog.cls(L), {"modules_collection": coll, "extensions": Obj(None, {"call": Native(lambda *_a, **_k: None)})}, label="loader")
            stage = "expand_exports"
            it.call(self.fns["expand_exports"], loader, pkg)
            stage = "expand_wildcards"
            it.call(self.fns["expand_wildcards"], loader, pkg, external=False)
            stage = "resolve_aliases"
            un1, _n = it.call(self.fns["resolve_aliases"], loader, implicit=implicit, external=False)
            state1 = {p: id(a.attrs.get("_target")) for p, a in self.aliases(ms)}
            stage = "resolve_aliases (second time)"
            un2, _n = it.call(self.fns["resolve_aliases"], loader, implicit=implicit, external=False)
            state2 = {p: id(a.attrs.get("_target")) for p, a in self.aliases(ms)}
            if set(un1) != set(un2) or state1 != state2:
                return f"resolving a second time is not a no-op: unresolved {sorted(un1)} then {sorted(un2)}"
            # what resolve_aliases hands back: the paths of the imports that could not be resolved because something is missing
            stage = "checking the returned set"
            dangling = set()
            for _path, a in self.aliases(ms):  # every alias in the tree now, whoever created it
                if a.attrs.get("_target") is None and not a.attrs["name"].endswith("/*"):
                    try:
                        it.call(self.prog.lookup_method(a.cls, "resolve_target")[0], a)
                    except Raised as r:
                        if r.exc == "AliasResolutionError":
                            dangling.add(it.getattr(a, "path"))
            if set(un1) != dangling:
                return f"resolve_aliases returns the unresolved imports {sorted(un1)}; the imports that cannot be resolved are {sorted(dangling)}"
            stage = "reading the aliases"
            for path, a in self.aliases(ms):
                if a.attrs["name"].endswith("/*"):
                    return f"the wildcard placeholder {path} is still a member after expansion"
                outcome = {}
                for attr in ("target", "final_target", "resolved", "kind", "is_public"):
                    try:
                        v = it.getattr(a, attr)
                        outcome[attr] = "ok"
                        if attr == "final_target" and isinstance(v, Obj) and v.cls is not None and v.cls.name == "Alias":
                            return f"{path}.final_target is an alias"
                    except Raised as r:
                        outcome[attr] = r.exc
                        if r.exc not in AE or attr in ("resolved", "kind"):
                            return f"{path}.{attr} raises {r.exc}"
                if id(a) in imported and a.attrs.get("_target") is not None and outcome["final_target"] != "ok":
                    return f"{path} is resolved (first link stored) yet its final target raises {outcome['final_target']}: the chain is partially resolved"
        except StepLimit:
            return f"{stage} does not terminate within the step budget"
        except (DepthLimit, RecursionError):
            return f"{stage} nests calls deeper than {it.max_depth} frames (unbounded recursion)"
        except Raised as r:
            return f"{stage} raises {r.exc}"
        return None


def external_rows(prog: Program) -> list[tuple[str, bool, str]]:
    """C06-R5: the fixpoint loop of resolve_aliases with packages outside the collection, on behaviour.

    pkg/a.py imports x and y from another package and its class C imports z from it; `GriffeLoader.load` is replaced by a recording stand-in that
    fails (ImportError), returns without adding anything, or inserts the package.  Observed: the packages load() was asked for, the returned
    unresolved set and iteration count.
    """
    from sa.absint import Native

    t = PackageTable(prog)
    it = t.it
    ra = t.fns["resolve_aliases"]
    rows: list[tuple[str, bool, str]] = []

    def scenario(mode: str, external: object, max_iterations: object, other: str = "ext") -> tuple[list[str], set[str], object]:
        it.steps = 0
        coll = it._construct(t.cc, [], {})
        pkg = t.new("Module", "pkg", filepath=t.PP("/s/pkg/__init__.py"))
        t.setm(coll, "pkg", pkg)
        a = t.new("Module", "a", filepath=t.PP("/s/pkg/a.py"))
        t.setm(pkg, "a", a)
        c = t.new("Class", "C", lineno=3, endlineno=4)
        t.setm(a, "C", c)
        for holder, n in ((a, "x"), (a, "y"), (c, "z")):
            t.setm(holder, n, t.new("Alias", n, f"{other}.{n}", lineno=1, endlineno=1))
            holder.attrs["imports"][n] = f"{other}.{n}"
        loads: list[str] = []

        def load(_i, _self, package, **_k):
            loads.append(package)
            if mode == "fails":
                raise Raised("ImportError")
            if mode in ("loads", "chain"):
                m = t.new("Module", package, filepath=t.PP(f"/s/{package}/__init__.py"))
                for n in "xyzw" if package == "ext2" else "xyz":
                    t.setm(m, n, t.new("Attribute", n, lineno=1, endlineno=1))
                if mode == "chain" and package == other:  # the loaded package itself imports from yet another one
                    t.setm(m, "w", t.new("Alias", "w", "ext2.w", lineno=2, endlineno=2))
                    m.attrs["imports"]["w"] = "ext2.w"
                t.setm(coll, package, m)
                return m
            return None

        it.stubs[f"{L}.load"] = load
        loader = Obj(prog.cls(L), {"modules_collection": coll, "extensions": Obj(None, {"call": Native(lambda *_a, **_k: None)})}, label="loader")
        try:
            un, iters = it.call(ra, loader, implicit=True, external=external, max_iterations=max_iterations)
        except StepLimit:
            return loads, set(), "does not terminate within the step budget"
        except (DepthLimit, RecursionError):
            return loads, set(), "unbounded recursion"
        except Raised as r:
            return loads, set(), f"raises {r.exc}"
        finally:
            it.stubs.pop(f"{L}.load", None)
        return loads, set(un), iters

    every = {"pkg.a.x", "pkg.a.y", "pkg.a.C.z"}
    loads, un, iters = scenario("fails", True, None)
    rows.append(("external|load fails", loads == ["ext"] and un == every and iters == 2,
                 f"three imports from a package that cannot be loaded: expected one load attempt (failures are remembered), all three left unresolved, and the loop to "
                 f"stop after the pass that changes nothing (2 iterations); got loads {loads}, unresolved {sorted(un)}, iterations {iters}"))
    loads, un, iters = scenario("loads", True, None)
    rows.append(("external|load succeeds", loads == ["ext"] and un == set() and iters == 2,
                 f"three imports from a loadable package: expected one load, nothing unresolved after the second pass; got loads {loads}, unresolved {sorted(un)}, iterations {iters}"))
    loads, un, iters = scenario("chain", True, None)
    rows.append(("external|loaded package imports from another one", loads == ["ext", "ext2"] and un == set() and iters == 3,
                 f"the loaded package `ext` itself imports w from `ext2`: the second pass resolves the three imports and leaves ext.w (one name unresolved, as after the "
                 f"first pass, but another one), the third resolves it: expected loads ['ext', 'ext2'], nothing unresolved, 3 iterations; got loads {loads}, "
                 f"unresolved {sorted(un)}, iterations {iters}"))
    loads, un, iters = scenario("nothing", True, None)
    rows.append(("external|load adds nothing", bool(loads) and set(loads) == {"ext"} and un == every and iters == 2,
                 f"load() returns without providing the names: expected the loop to stop as soon as the unresolved set repeats (2 iterations); got iterations {iters}, unresolved {sorted(un)}"))
    loads, un, iters = scenario("nothing", True, 1)
    rows.append(("external|max_iterations=1", un == every and iters == 1, f"max_iterations=1: expected exactly one pass; got iterations {iters}, unresolved {sorted(un)}"))
    loads, un, iters = scenario("nothing", True, 0)
    rows.append(("external|max_iterations=0", not loads and iters == 0, f"max_iterations=0: expected no pass and no load; got iterations {iters}, loads {loads}"))
    loads, un, iters = scenario("loads", False, None)
    rows.append(("external|external=False", not loads and un == every, f"external=False: expected no load and all three unresolved; got loads {loads}, unresolved {sorted(un)}"))
    loads, un, iters = scenario("loads", None, None)
    rows.append(("external|external=None, another package", not loads and un == every, f"external=None, imports from `ext`: expected no load; got loads {loads}, unresolved {sorted(un)}"))
    loads, un, iters = scenario("loads", None, None, other="_pkg")
    rows.append(("external|external=None, private sibling", loads == ["_pkg"] and un == set(),
                 f"external=None, imports from `_pkg` (the package's private sibling): expected it to be loaded once and everything resolved; got loads {loads}, unresolved {sorted(un)}"))
    # a private sibling package that star-imports back from the package that star-imports it: loading it (with its own wildcard expansion, as
    # _post_load does) in the middle of the loop over the importing module's members must not break that loop
    it.steps = 0
    coll = it._construct(t.cc, [], {})
    p_mod = t.new("Module", "p", filepath=t.PP("/s/p/__init__.py"))
    t.setm(coll, "p", p_mod)
    t.setm(p_mod, "_p/*", t.new("Alias", "_p/*", "_p", lineno=1, endlineno=1))
    p_mod.attrs["imports"]["_p/*"] = "_p"
    t.setm(p_mod, "x", t.new("Attribute", "x", lineno=2, endlineno=2))
    ew = t.fns["expand_wildcards"]
    loader = Obj(prog.cls(L), {"modules_collection": coll, "extensions": Obj(None, {"call": Native(lambda *_a, **_k: None)})}, label="loader")

    def load_sibling(_i, self_, package, **_k):
        m = t.new("Module", package, filepath=t.PP(f"/s/{package}/__init__.py"))
        t.setm(m, "p/*", t.new("Alias", "p/*", "p", lineno=1, endlineno=1))
        m.attrs["imports"]["p/*"] = "p"
        t.setm(m, "y", t.new("Attribute", "y", lineno=2, endlineno=2))
        t.setm(coll, package, m)
        it.call(ew, self_, m)  # what _post_load does with a freshly loaded package
        return m

    it.stubs[f"{L}.load"] = load_sibling
    try:
        it.call(ew, loader, p_mod, external=None)
        got_m: object = sorted(p_mod.attrs["members"])
    except StepLimit:
        got_m = "does not terminate within the step budget"
    except (DepthLimit, RecursionError):
        got_m = "unbounded recursion"
    except Raised as r:
        got_m = f"raises {r.exc}"
    finally:
        it.stubs.pop(f"{L}.load", None)
    rows.append(("external|private sibling star-imports back", got_m == ["x", "y"],
                 f"p/__init__.py: `from _p import *; x = 1`, _p/__init__.py: `from p import *; y = 1`, expand_wildcards(p) loading _p on the way: "
                 f"members of p {got_m}; expected ['x', 'y'] and no exception"))
    return rows
