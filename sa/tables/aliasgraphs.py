"""C06-R7: every small alias graph, resolved in every order, evaluated on the models' own code.

A graph gives each of N names in one module a definition: a real object, an import of another name (an unresolved alias, possibly of itself or
of something that does not exist), or an alias that was created already linked to another member (what wildcard expansion does).  The
evaluator (sa.absint) builds the graph with the real constructors and `set_member`, then calls `resolve_target()` on the unresolved aliases in
the given order and reads `target` / `final_target` / `resolved` of every alias.  Nothing is imported from `_griffe`.

Obligations per (graph, order):
  total          every call raises nothing but AliasResolutionError / CyclicAliasError and returns within the step budget
  sound          when resolve_target() returns, final_target returns a real object (the whole chain is resolved)
  all-or-nothing when resolve_target() raises, the alias is still unresolved (`resolved` is False)
  complete       an alias whose chain reaches a real object is resolved by resolve_target() (no spurious error)
  fixpoint       resolving everything a second time changes no `resolved` flag and no target
"""

from __future__ import annotations

import itertools
from typing import Iterator

from sa.absint import DepthLimit, Interp, Obj, Raised, StepLimit
from sa.srcmodel import Program

AE = {"AliasResolutionError", "CyclicAliasError"}
M = "_griffe.models"


def graphs(n: int) -> Iterator[tuple]:
    """Definitions of names x0..x{n-1}: ("obj",) | ("imp", j|"missing") | ("linked", j)."""
    choices = []
    for i in range(n):
        c: list[tuple] = [("obj",)]
        c += [("imp", j) for j in range(n)] + [("imp", "missing")]
        c += [("linked", j) for j in range(n) if j != i]
        choices.append(c)
    for g in itertools.product(*choices):
        # a linked alias needs its target to exist when it is created: links may only point at objects, imports, or earlier links
        if all(d[0] != "linked" or g[d[1]][0] != "linked" or d[1] < i for i, d in enumerate(g)):
            yield g


def reaches_object(g: tuple, i: int) -> bool:
    seen = set()
    while True:
        if i in seen or i == "missing":
            return False
        seen.add(i)
        d = g[i]
        if d[0] == "obj":
            return True
        i = d[1]


def fmt(g: tuple) -> str:
    def one(i: int, d: tuple) -> str:
        if d[0] == "obj":
            return f"x{i} = 1"
        t = "missing.y" if d[1] == "missing" else f"p.x{d[1]}"
        return f"x{i} -> {t}" if d[0] == "imp" else f"x{i} => {t} (created linked)"
    return "; ".join(one(i, d) for i, d in enumerate(g))


class Table:
    def __init__(self, prog: Program) -> None:
        self.prog = prog
        self.it = Interp(prog, max_depth=80, max_steps=200_000)
        self.cc = prog.cls("_griffe.collections.ModulesCollection")

    def new(self, cls: str, *a: object, **k: object) -> Obj:
        return self.it._construct(self.prog.cls(f"{M}.{cls}"), list(a), dict(k))

    def meth(self, o: Obj, name: str):
        return self.prog.lookup_method(o.cls, name)[0]

    def build(self, g: tuple) -> tuple[Obj, list[Obj]]:
        it = self.it
        coll = it._construct(self.cc, [], {})
        p = self.new("Module", "p")
        it.call(self.meth(coll, "set_member"), coll, "p", p)
        members: list[Obj | None] = [None] * len(g)
        for phase in ("obj", "imp", "linked"):
            for i, d in enumerate(g):
                if d[0] != phase:
                    continue
                if phase == "obj":
                    m = self.new("Attribute", f"x{i}")
                elif phase == "imp":
                    m = self.new("Alias", f"x{i}", "missing.y" if d[1] == "missing" else f"p.x{d[1]}")
                else:
                    m = self.new("Alias", f"x{i}", members[d[1]], parent=p)  # the way expand_wildcards creates its aliases
                it.call(self.meth(p, "set_member"), p, f"x{i}", m)
                members[i] = m
        return coll, members  # type: ignore[return-value]

    def deref(self, a: Obj, attr: str) -> tuple[str, object]:
        try:
            return "ok", self.it.getattr(a, attr)
        except Raised as r:
            return r.exc, None

    def run(self, g: tuple, order: tuple[int, ...]) -> str | None:
        """Returns the first broken obligation, or None."""
        it = self.it
        it.steps = 0
        try:
            _coll, ms = self.build(g)
            for rnd in (1, 2):
                before = [(m.attrs.get("_target") is not None, id(m.attrs.get("_target"))) for m in ms]
                for i in order:
                    a = ms[i]
                    if g[i][0] == "obj":
                        continue
                    was = a.attrs.get("_target") is not None
                    if was and rnd == 1 and g[i][0] == "imp":
                        pass  # resolved as part of another chain: resolving again must be harmless
                    try:
                        it.call(self.meth(a, "resolve_target"), a)
                        outcome = "ok"
                    except Raised as r:
                        outcome = r.exc
                    if outcome != "ok" and outcome not in AE:
                        return f"x{i}.resolve_target() raises {outcome}"
                    if bool(a.attrs.get("_passed_through")):
                        return f"x{i} is left marked as being resolved (_passed_through) after resolve_target()"
                    if outcome == "ok":
                        st, ft = self.deref(a, "final_target")
                        if st != "ok":
                            return f"x{i}.resolve_target() returned, yet x{i}.final_target raises {st}: the chain is only partially resolved"
                        if isinstance(ft, Obj) and ft.cls is not None and ft.cls.name == "Alias":
                            return f"x{i}.final_target is an alias"
                    else:
                        if g[i][0] == "imp" and a.attrs.get("_target") is not None and not was:
                            return (f"x{i}.resolve_target() raises {outcome}, yet x{i} is left resolved (first link stored, rest of the chain "
                                    "unresolvable): the chain is partially resolved")
                        if reaches_object(g, i):
                            return f"x{i}.resolve_target() raises {outcome} although its chain reaches a real object"
                if rnd == 2:
                    after = [(m.attrs.get("_target") is not None, id(m.attrs.get("_target"))) for m in ms]
                    if after != before:
                        return "resolving a second time changed what was resolved (not a fixpoint)"
            for i, a in enumerate(ms):
                if g[i][0] == "obj":
                    continue
                for attr in ("target", "final_target", "resolved", "kind"):
                    st, _v = self.deref(a, attr)
                    if st != "ok" and (st not in AE or attr in ("resolved", "kind")):
                        return f"x{i}.{attr} raises {st}"
                st, _v = self.deref(a, "final_target")
                if (st == "ok") != reaches_object(g, i):
                    return f"x{i}.final_target {'returns' if st == 'ok' else 'raises ' + st} although its chain {'does not reach' if st == 'ok' else 'reaches'} a real object"
        except StepLimit:
            return "evaluation does not terminate within the step budget (loop or unbounded recursion)"
        except DepthLimit:
            return f"calls nest deeper than {it.max_depth} frames on a graph of {len(g)} names (unbounded recursion)"
        except Raised as r:
            return f"building or reading the graph raises {r.exc}"
        return None
