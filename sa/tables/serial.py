"""A-TB: key tables of the JSON writers (`as_dict`) and readers (`_load_*`), extracted from the AST.

Writer: for the class's `as_dict` (following `super().as_dict(...)` through the in-repo MRO) every key written into the result mapping,
with   always     - every path to the return passes a write of that key
       full_only  - every write is dominated by the `full` flag being true
       cond       - texts of the other dominating branch facts (e.g. `self.lineno is not None`)
       values     - the value expressions
Reader: for a loader function every key read from its dict parameter, as required (`d["k"]`) or optional (`d.get("k")`, `"k" in d` guard),
following helper calls that receive the same dict.
"""

from __future__ import annotations

import ast
from dataclasses import dataclass, field

from sa.srcmodel import AnalysisError, ClassInfo, FunctionInfo, Program, dotted, unparse, walk_no_nested
from sa.util import cfg_of


@dataclass
class WKey:
    key: str
    always: bool
    full_only: bool
    conds: list[str]
    values: list[ast.expr]
    owner: str
    sites: list[ast.AST] = field(default_factory=list)


def _const_key(node: ast.AST | None) -> str | None:
    return node.value if isinstance(node, ast.Constant) and isinstance(node.value, str) else None


def writer_keys(prog: Program, cls: ClassInfo, method: str = "as_dict", _after: ClassInfo | None = None, *, full: bool | None = None) -> dict[str, WKey]:
    """`full`: when given, `always` is computed under the assumption that the `full` flag has that value."""
    ms = prog.lookup_method(cls, method, after=_after)
    if not ms:
        raise AnalysisError(f"{cls.qualname} has no {method}")
    fn = ms[0]
    cfg = cfg_of(fn)
    out: dict[str, WKey] = {}
    writes: list[tuple[object, str, ast.expr]] = []  # (cfg node, key, value)
    full_param = "full" if "full" in fn.params else None
    # the result mapping: the local name(s) the function returns (or a dict display returned directly)
    result_names = {s.value.id for s in walk_no_nested(fn.node) if isinstance(s, ast.Return) and isinstance(s.value, ast.Name)}
    result_var: str | None = next(iter(sorted(result_names)), None)

    def dict_items(d: ast.Dict):
        for k, v in zip(d.keys, d.values):
            if _const_key(k):
                yield _const_key(k), v

    for n in cfg.live_nodes():
        s = n.stmt
        if n.kind == "return" and isinstance(s, ast.Return) and isinstance(s.value, ast.Dict):
            for k, v in dict_items(s.value):
                writes.append((n, k, v))
            result_var = result_var or "<return>"
        if n.kind != "stmt" or s is None:
            continue
        if isinstance(s, (ast.Assign, ast.AnnAssign)) and s.value is not None:
            tgt = s.targets[0] if isinstance(s, ast.Assign) else s.target
            if isinstance(tgt, ast.Name) and tgt.id in result_names and isinstance(s.value, ast.Dict):
                for k, v in dict_items(s.value):
                    writes.append((n, k, v))
            elif isinstance(tgt, ast.Name) and tgt.id in result_names and isinstance(s.value, ast.Call) and isinstance(s.value.func, ast.Attribute) \
                    and s.value.func.attr == method and isinstance(s.value.func.value, ast.Call) and dotted(s.value.func.value.func) == "super":
                inherited = writer_keys(prog, cls, method, _after=fn.cls, full=full)
                for k, wk in inherited.items():
                    out[k] = wk
            elif isinstance(tgt, ast.Subscript) and isinstance(tgt.value, ast.Name) and tgt.value.id in result_names and _const_key(tgt.slice):
                writes.append((n, _const_key(tgt.slice), s.value))
        elif isinstance(s, ast.Expr) and isinstance(s.value, ast.Call) and isinstance(s.value.func, ast.Attribute) and s.value.func.attr == "update" \
                and isinstance(s.value.func.value, ast.Name) and s.value.func.value.id in result_names:
            if s.value.args and isinstance(s.value.args[0], ast.Dict):
                for k, v in dict_items(s.value.args[0]):
                    writes.append((n, k, v))
            for kw in s.value.keywords:
                if kw.arg:
                    writes.append((n, kw.arg, kw.value))
    writes = [(n, k, ev) for n, k, v in writes for ev in _expand_value(prog, fn, v)]
    if result_var is None:
        raise AnalysisError(f"{fn.qualname}: result mapping not recognised")
    by_key: dict[str, list[tuple[object, ast.expr]]] = {}
    for n, k, v in writes:
        by_key.setdefault(k, []).append((n, v))
    rets = [n for n in cfg.live_nodes() if n.kind == "return"]
    for k, lst in by_key.items():
        nodes = {n for n, _v in lst}
        def dead(a, _b, label):
            if full is None or not full_param or a.kind != "test" or a.expr is None or label not in "TF":
                return False
            from sa.reach import eval3

            v = eval3(a.expr, {full_param: full})
            return v is not None and v != (label == "T")

        always = not (cfg.reach(cfg.entry, avoid=lambda x, nodes=nodes: x in nodes and x.kind != "return", avoid_edge=dead, normal_only=True)
                      & {r for r in rets if r not in nodes})
        full_only = bool(full_param) and all(cfg.dominated_by_fact(n, lambda a, t: t and unparse(a) == full_param) for n in nodes)
        conds: list[str] = []
        for n in nodes:
            for text, truth in cfg.facts_on_all_paths(n):
                if text != full_param:
                    conds.append(text if truth else f"not ({text})")
        out[k] = WKey(k, always, full_only, sorted(set(conds)), [v for _n, v in lst], fn.qualname, [n.stmt for n in nodes])
    return out


def _expand_value(prog: Program, fn: FunctionInfo, v: ast.expr, depth: int = 0) -> list[ast.expr]:
    """The expressions a written value can come from: a local bound by plain assignments is replaced by what it is bound to, a call of an in-repo
    function (a helper the value was moved into) by what that function returns."""
    if depth > 3:
        return [v]
    if isinstance(v, ast.Name) and v.id not in fn.params:
        srcs = [s_.value for s_ in walk_no_nested(fn.node) if isinstance(s_, (ast.Assign, ast.AnnAssign)) and s_.value is not None and any(
            isinstance(t, ast.Name) and t.id == v.id for t in (s_.targets if isinstance(s_, ast.Assign) else [s_.target]))]
        other = [x for x in walk_no_nested(fn.node) if isinstance(x, ast.Name) and x.id == v.id and isinstance(x.ctx, ast.Store)]
        if srcs and len(other) == len(srcs):
            return [e for s_ in srcs for e in _expand_value(prog, fn, s_, depth + 1)]
        return [v]
    if isinstance(v, ast.Call) and dotted(v.func):
        callee = prog.functions.get(prog.resolve(fn.module, dotted(v.func)) or "")
        if callee is not None and callee.cls is None:
            rets = [r.value for r in walk_no_nested(callee.node) if isinstance(r, ast.Return) and r.value is not None]
            if rets:
                return [e for r in rets for e in _expand_value(prog, callee, r, depth + 1)]
    return [v]


@dataclass
class RKey:
    key: str
    required: bool
    sites: list[tuple[FunctionInfo, ast.AST]]


def reader_keys(prog: Program, fn: FunctionInfo, param: str | None = None, _depth: int = 0) -> dict[str, RKey]:
    """Keys read from the dict parameter of a loader function (helpers receiving the same dict are followed)."""
    param = param or fn.params[0]
    out: dict[str, RKey] = {}
    guarded: set[str] = set()
    for n in walk_no_nested(fn.node):
        if isinstance(n, ast.Compare) and len(n.ops) == 1 and isinstance(n.ops[0], (ast.In, ast.NotIn)) and _const_key(n.left) and unparse(n.comparators[0]) == param:
            guarded.add(_const_key(n.left))

    def add(k: str, required: bool, site: ast.AST) -> None:
        cur = out.get(k)
        if cur is None:
            out[k] = RKey(k, required, [(fn, site)])
        else:
            cur.required = cur.required or required
            cur.sites.append((fn, site))

    for n in walk_no_nested(fn.node):
        if isinstance(n, ast.Subscript) and isinstance(n.ctx, ast.Load) and unparse(n.value) == param and _const_key(n.slice):
            add(_const_key(n.slice), _const_key(n.slice) not in guarded, n)
        elif isinstance(n, ast.Call) and isinstance(n.func, ast.Attribute) and n.func.attr in ("get", "pop") and unparse(n.func.value) == param and n.args and _const_key(n.args[0]):
            add(_const_key(n.args[0]), n.func.attr == "pop" and len(n.args) == 1, n)
        elif isinstance(n, ast.Call) and _depth < 3:
            full = prog.resolve(fn.module, dotted(n.func) or "")
            if full in prog.functions:
                callee = prog.functions[full]
                for i, a in enumerate(n.args):
                    if unparse(a) == param and i < len(callee.params):
                        for k, rk in reader_keys(prog, callee, callee.params[i], _depth + 1).items():
                            for f2, site in rk.sites:
                                cur = out.get(k)
                                if cur is None:
                                    out[k] = RKey(k, rk.required, [(f2, site)])
                                else:
                                    cur.required = cur.required or rk.required
                                    cur.sites.append((f2, site))
    for k in guarded:
        out.setdefault(k, RKey(k, False, [(fn, fn.node)]))
    return out


def ctor_params(prog: Program, cls: ClassInfo) -> tuple[set[str], set[str]]:
    """(required, optional) keyword names accepted by the class constructor."""
    init = prog.lookup_method(cls, "__init__")
    if not init:
        names = []
        for c in reversed(prog.mro(cls)):
            names += [n for n in c.class_annots if n not in names]
        req = {n for n in names if prog.lookup_class_attr(cls, n) is None}
        return req, set(names) - req
    a = init[0].node.args
    pos = [x.arg for x in (*a.posonlyargs, *a.args)][1:]
    n_def = len(a.defaults)
    req = set(pos[: len(pos) - n_def]) if n_def else set(pos)
    opt = set(pos) - req
    for p, d in zip(a.kwonlyargs, a.kw_defaults):
        (opt if d is not None else req).add(p.arg)
    return req, opt
