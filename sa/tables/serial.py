"""A-TB: key tables of the JSON writers (`as_dict`) and readers (`_load_*`), extracted from the AST.

Writer: for the class's `as_dict` (following `super().as_dict(...)` through the in-repo MRO) every key written into the result mapping,
with   always     - every path to the return passes a write of that key
       full_only  - every write is dominated by the `full` flag being true
       cond       - texts of the other dominating branch facts (e.g. `self.lineno is not None`)
       values     - the value expressions
Reader: for a loader function every key read from its dict parameter, as required (`d["k"]`) or optional (`d.get("k")`, `"k" in d` guard),
following helper calls that receive the same dict.
"""

from __future__ import annotations

import ast
from dataclasses import dataclass, field

from sa.srcmodel import AnalysisError, ClassInfo, FunctionInfo, Program, dotted, unparse, walk_no_nested
from sa.util import cfg_of


@dataclass
class WKey:
    key: str
    always: bool
    full_only: bool
    conds: list[str]
    values: list[ast.expr]
    owner: str
    sites: list[ast.AST] = field(default_factory=list)


def _const_key(node: ast.AST | None) -> str | None:
    return node.value if isinstance(node, ast.Constant) and isinstance(node.value, str) else None



# ---------------------------------------------------------------------------------------------- normal form of a writer
class _Sub(ast.NodeTransformer):
    def __init__(self, bound: dict[str, ast.expr]) -> None:
        self.bound = bound

    def visit_Name(self, node: ast.Name) -> ast.AST:  # noqa: N802
        import copy

        return copy.deepcopy(self.bound[node.id]) if node.id in self.bound and isinstance(node.ctx, ast.Load) else node


def _rows_of(fn_node: ast.AST, it: ast.expr) -> list[ast.expr] | None:
    """The elements of a literal tuple / list display, directly or through a local bound once to one."""
    if isinstance(it, ast.Name):
        defs = [s_ for s_ in ast.walk(fn_node) if isinstance(s_, (ast.Assign, ast.AnnAssign)) and s_.value is not None and any(
            isinstance(t, ast.Name) and t.id == it.id for t in (s_.targets if isinstance(s_, ast.Assign) else [s_.target]))]
        if len(defs) != 1:
            return None
        it = defs[0].value
    if isinstance(it, (ast.Tuple, ast.List)) and it.elts and not any(isinstance(e, ast.Starred) for e in it.elts):
        return list(it.elts)
    return None


def _bind_row(target: ast.expr, row: ast.expr) -> dict[str, ast.expr] | None:
    if isinstance(target, ast.Name):
        return {target.id: row}
    if isinstance(target, (ast.Tuple, ast.List)) and isinstance(row, (ast.Tuple, ast.List)) and len(target.elts) == len(row.elts) \
            and all(isinstance(t, ast.Name) for t in target.elts):
        return {t.id: r for t, r in zip(target.elts, row.elts)}  # type: ignore[union-attr]
    return None


def _simplify(st: ast.stmt) -> ast.stmt:
    """getattr(self, "name") -> self.name"""
    class G(ast.NodeTransformer):
        def visit_Call(self, node: ast.Call) -> ast.AST:  # noqa: N802
            self.generic_visit(node)
            if isinstance(node.func, ast.Name) and node.func.id == "getattr" and len(node.args) == 2 and isinstance(node.args[1], ast.Constant) \
                    and isinstance(node.args[1].value, str) and not node.keywords:
                return ast.Attribute(value=node.args[0], attr=node.args[1].value, ctx=ast.Load())
            return node

    return G().visit(st)


def _propagate_locals(body: list[ast.stmt]) -> list[ast.stmt]:
    """Inside one unrolled copy of a loop body: `v = <expr>` followed by uses of v -> the uses read <expr> (v assigned once in the body)."""
    out: list[ast.stmt] = []
    bound: dict[str, ast.expr] = {}
    for st in body:
        st = _Sub(bound).visit(st) if bound else st
        if isinstance(st, ast.Assign) and len(st.targets) == 1 and isinstance(st.targets[0], ast.Name) and isinstance(st.value, (ast.Attribute, ast.Name, ast.Constant)):
            bound[st.targets[0].id] = st.value
            continue
        out.append(st)
    return out


def normal_form(prog: Program, fn: FunctionInfo) -> FunctionInfo:
    """An equivalent writer in the statement forms the key table reads: loops over literal displays of rows are unrolled (also dict comprehensions
    over them given to update()), a helper whose body is `return {display}` is inlined at its call, `getattr(self, "k")` is `self.k`,
    `return {**m, "k": v}` is `m["k"] = v; return m`.  The result is only analysed, never run."""
    import copy

    from sa.srcmodel import set_parents

    node = copy.deepcopy(fn.node)

    def inline_helper(call: ast.expr) -> ast.expr:
        if isinstance(call, ast.Call) and dotted(call.func) and not any(isinstance(a, ast.Starred) for a in call.args) and not any(k.arg is None for k in call.keywords):
            h = prog.functions.get(prog.resolve(fn.module, dotted(call.func)) or "")
            if h is not None and h.cls is None:
                body = [b for b in h.node.body if not (isinstance(b, ast.Expr) and isinstance(b.value, ast.Constant))]
                if len(body) == 1 and isinstance(body[0], ast.Return) and isinstance(body[0].value, ast.Dict):
                    a = h.node.args
                    bound = dict(zip([x.arg for x in (*a.posonlyargs, *a.args)], call.args))
                    bound.update({k.arg: k.value for k in call.keywords})
                    return _Sub(bound).visit(copy.deepcopy(body[0].value))
        return call

    def rewrite(body: list[ast.stmt]) -> list[ast.stmt]:
        out: list[ast.stmt] = []
        for st in body:
            st = _simplify(st)
            if isinstance(st, (ast.Assign, ast.AnnAssign)) and st.value is not None:
                st.value = inline_helper(st.value)
            if isinstance(st, ast.Return) and st.value is not None:
                st.value = inline_helper(st.value)
                v = st.value
                if isinstance(v, ast.Dict) and any(k is None for k in v.keys):
                    spreads = [val for k, val in zip(v.keys, v.values) if k is None]
                    if len(spreads) == 1 and isinstance(spreads[0], ast.Name) and v.keys[0] is None:
                        m = spreads[0]
                        for k, val in zip(v.keys, v.values):
                            if k is not None:
                                out.append(ast.Assign(targets=[ast.Subscript(value=ast.Name(id=m.id, ctx=ast.Load()), slice=k, ctx=ast.Store())], value=val, lineno=st.lineno, col_offset=0))
                        out.append(ast.Return(value=ast.Name(id=m.id, ctx=ast.Load()), lineno=st.lineno, col_offset=0))
                        continue
            if isinstance(st, ast.For) and not st.orelse:
                rows = _rows_of(node, st.iter)
                binds = [_bind_row(st.target, r) for r in rows] if rows else None
                if binds and all(b is not None for b in binds) and not any(isinstance(x, (ast.Break, ast.Continue)) for b_ in st.body for x in ast.walk(b_)):
                    for b in binds:
                        out += rewrite(_propagate_locals([_simplify(_Sub(b).visit(copy.deepcopy(x))) for x in st.body]))
                    continue
            if isinstance(st, ast.Expr) and isinstance(st.value, ast.Call) and isinstance(st.value.func, ast.Attribute) and st.value.func.attr == "update" \
                    and len(st.value.args) == 1 and isinstance(st.value.args[0], ast.DictComp) and len(st.value.args[0].generators) == 1:
                comp = st.value.args[0]
                gen = comp.generators[0]
                rows = _rows_of(node, gen.iter)
                binds = [_bind_row(gen.target, r) for r in rows] if rows else None
                if binds and all(b is not None for b in binds):
                    for b in binds:
                        assign: ast.stmt = ast.Assign(targets=[ast.Subscript(value=copy.deepcopy(st.value.func.value), slice=_Sub(b).visit(copy.deepcopy(comp.key)), ctx=ast.Store())],
                                                      value=_Sub(b).visit(copy.deepcopy(comp.value)), lineno=st.lineno, col_offset=0)
                        if gen.ifs:
                            test = gen.ifs[0] if len(gen.ifs) == 1 else ast.BoolOp(op=ast.And(), values=list(gen.ifs))
                            assign = ast.If(test=_Sub(b).visit(copy.deepcopy(test)), body=[assign], orelse=[], lineno=st.lineno, col_offset=0)
                        out.append(assign)
                    continue
            for field_ in ("body", "orelse", "finalbody"):
                if isinstance(getattr(st, field_, None), list) and getattr(st, field_) and isinstance(getattr(st, field_)[0], ast.stmt):
                    setattr(st, field_, rewrite(getattr(st, field_)))
            out.append(st)
        return out

    node.body = rewrite(node.body)
    ast.fix_missing_locations(node)
    set_parents(node)
    return FunctionInfo(fn.qualname, fn.name, node, fn.module, fn.cls, fn.outer)


def writer_keys(prog: Program, cls: ClassInfo, method: str = "as_dict", _after: ClassInfo | None = None, *, full: bool | None = None) -> dict[str, WKey]:
    """`full`: when given, `always` is computed under the assumption that the `full` flag has that value."""
    ms = prog.lookup_method(cls, method, after=_after)
    if not ms:
        raise AnalysisError(f"{cls.qualname} has no {method}")
    fn = normal_form(prog, ms[0])
    cfg = cfg_of(fn)
    out: dict[str, WKey] = {}
    writes: list[tuple[object, str, ast.expr]] = []  # (cfg node, key, value)
    full_param = "full" if "full" in fn.params else None
    # the result mapping: the local name(s) the function returns (or a dict display returned directly)
    result_names = {s.value.id for s in walk_no_nested(fn.node) if isinstance(s, ast.Return) and isinstance(s.value, ast.Name)}
    result_var: str | None = next(iter(sorted(result_names)), None)

    def dict_items(d: ast.Dict):
        for k, v in zip(d.keys, d.values):
            if _const_key(k):
                yield _const_key(k), v

    for n in cfg.live_nodes():
        s = n.stmt
        if n.kind == "return" and isinstance(s, ast.Return) and isinstance(s.value, ast.Dict):
            for k, v in dict_items(s.value):
                writes.append((n, k, v))
            result_var = result_var or "<return>"
        if n.kind != "stmt" or s is None:
            continue
        if isinstance(s, (ast.Assign, ast.AnnAssign)) and s.value is not None:
            tgt = s.targets[0] if isinstance(s, ast.Assign) else s.target
            if isinstance(tgt, ast.Name) and tgt.id in result_names and isinstance(s.value, ast.Dict):
                for k, v in dict_items(s.value):
                    writes.append((n, k, v))
            elif isinstance(tgt, ast.Name) and tgt.id in result_names and isinstance(s.value, ast.Call) and isinstance(s.value.func, ast.Attribute) \
                    and s.value.func.attr == method and isinstance(s.value.func.value, ast.Call) and dotted(s.value.func.value.func) == "super":
                inherited = writer_keys(prog, cls, method, _after=fn.cls, full=full)
                for k, wk in inherited.items():
                    out[k] = wk
            elif isinstance(tgt, ast.Subscript) and isinstance(tgt.value, ast.Name) and tgt.value.id in result_names and _const_key(tgt.slice):
                writes.append((n, _const_key(tgt.slice), s.value))
        elif isinstance(s, ast.Expr) and isinstance(s.value, ast.Call) and isinstance(s.value.func, ast.Attribute) and s.value.func.attr == "update" \
                and isinstance(s.value.func.value, ast.Name) and s.value.func.value.id in result_names:
            if s.value.args and isinstance(s.value.args[0], ast.Dict):
                for k, v in dict_items(s.value.args[0]):
                    writes.append((n, k, v))
            for kw in s.value.keywords:
                if kw.arg:
                    writes.append((n, kw.arg, kw.value))
    writes = [(n, k, ev) for n, k, v in writes for ev in _expand_value(prog, fn, v)]
    if result_var is None:
        raise AnalysisError(f"{fn.qualname}: result mapping not recognised")
    by_key: dict[str, list[tuple[object, ast.expr]]] = {}
    for n, k, v in writes:
        by_key.setdefault(k, []).append((n, v))
    rets = [n for n in cfg.live_nodes() if n.kind == "return"]
    for k, lst in by_key.items():
        nodes = {n for n, _v in lst}
        def dead(a, _b, label):
            if full is None or not full_param or a.kind != "test" or a.expr is None or label not in "TF":
                return False
            from sa.reach import eval3

            v = eval3(a.expr, {full_param: full})
            return v is not None and v != (label == "T")

        always = not (cfg.reach(cfg.entry, avoid=lambda x, nodes=nodes: x in nodes and x.kind != "return", avoid_edge=dead, normal_only=True)
                      & {r for r in rets if r not in nodes})
        full_only = bool(full_param) and all(cfg.dominated_by_fact(n, lambda a, t: t and unparse(a) == full_param) for n in nodes)
        conds: list[str] = []
        for n in nodes:
            for text, truth in cfg.facts_on_all_paths(n):
                if text != full_param:
                    conds.append(text if truth else f"not ({text})")
        out[k] = WKey(k, always, full_only, sorted(set(conds)), [v for _n, v in lst], fn.qualname, [n.stmt for n in nodes])
    return out


def _expand_value(prog: Program, fn: FunctionInfo, v: ast.expr, depth: int = 0) -> list[ast.expr]:
    """The expressions a written value can come from: a local bound by plain assignments is replaced by what it is bound to, a call of an in-repo
    function (a helper the value was moved into) by what that function returns."""
    if depth > 3:
        return [v]
    if isinstance(v, ast.Name) and v.id not in fn.params:
        srcs = [s_.value for s_ in walk_no_nested(fn.node) if isinstance(s_, (ast.Assign, ast.AnnAssign)) and s_.value is not None and any(
            isinstance(t, ast.Name) and t.id == v.id for t in (s_.targets if isinstance(s_, ast.Assign) else [s_.target]))]
        other = [x for x in walk_no_nested(fn.node) if isinstance(x, ast.Name) and x.id == v.id and isinstance(x.ctx, ast.Store)]
        if srcs and len(other) == len(srcs):
            return [e for s_ in srcs for e in _expand_value(prog, fn, s_, depth + 1)]
        return [v]
    if isinstance(v, ast.Call) and dotted(v.func):
        callee = prog.functions.get(prog.resolve(fn.module, dotted(v.func)) or "")
        if callee is not None and callee.cls is None:
            rets = [r.value for r in walk_no_nested(callee.node) if isinstance(r, ast.Return) and r.value is not None]
            if rets:
                return [e for r in rets for e in _expand_value(prog, callee, r, depth + 1)]
    return [v]


@dataclass
class RKey:
    key: str
    required: bool
    sites: list[tuple[FunctionInfo, ast.AST]]


def reader_keys(prog: Program, fn: FunctionInfo, param: str | None = None, _depth: int = 0) -> dict[str, RKey]:
    """Keys read from the dict parameter of a loader function (helpers receiving the same dict are followed)."""
    param = param or fn.params[0]
    out: dict[str, RKey] = {}
    guarded: set[str] = set()
    for n in walk_no_nested(fn.node):
        if isinstance(n, ast.Compare) and len(n.ops) == 1 and isinstance(n.ops[0], (ast.In, ast.NotIn)) and _const_key(n.left) and unparse(n.comparators[0]) == param:
            guarded.add(_const_key(n.left))

    def add(k: str, required: bool, site: ast.AST) -> None:
        cur = out.get(k)
        if cur is None:
            out[k] = RKey(k, required, [(fn, site)])
        else:
            cur.required = cur.required or required
            cur.sites.append((fn, site))

    for n in walk_no_nested(fn.node):
        if isinstance(n, ast.Subscript) and isinstance(n.ctx, ast.Load) and unparse(n.value) == param and _const_key(n.slice):
            add(_const_key(n.slice), _const_key(n.slice) not in guarded, n)
        elif isinstance(n, ast.Call) and isinstance(n.func, ast.Attribute) and n.func.attr in ("get", "pop") and unparse(n.func.value) == param and n.args and _const_key(n.args[0]):
            add(_const_key(n.args[0]), n.func.attr == "pop" and len(n.args) == 1, n)
        elif isinstance(n, ast.Call) and _depth < 3:
            full = prog.resolve(fn.module, dotted(n.func) or "")
            if full in prog.functions:
                callee = prog.functions[full]
                for i, a in enumerate(n.args):
                    if unparse(a) == param and i < len(callee.params):
                        for k, rk in reader_keys(prog, callee, callee.params[i], _depth + 1).items():
                            for f2, site in rk.sites:
                                cur = out.get(k)
                                if cur is None:
                                    out[k] = RKey(k, rk.required, [(f2, site)])
                                else:
                                    cur.required = cur.required or rk.required
                                    cur.sites.append((f2, site))
    for k in guarded:
        out.setdefault(k, RKey(k, False, [(fn, fn.node)]))
    return out


def ctor_params(prog: Program, cls: ClassInfo) -> tuple[set[str], set[str]]:
    """(required, optional) keyword names accepted by the class constructor."""
    init = prog.lookup_method(cls, "__init__")
    if not init:
        names = []
        for c in reversed(prog.mro(cls)):
            names += [n for n in c.class_annots if n not in names]
        req = {n for n in names if prog.lookup_class_attr(cls, n) is None}
        return req, set(names) - req
    a = init[0].node.args
    pos = [x.arg for x in (*a.posonlyargs, *a.args)][1:]
    n_def = len(a.defaults)
    req = set(pos[: len(pos) - n_def]) if n_def else set(pos)
    opt = set(pos) - req
    for p, d in zip(a.kwonlyargs, a.kw_defaults):
        (opt if d is not None else req).add(p.arg)
    return req, opt
