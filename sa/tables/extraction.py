"""Extraction table: the visitor (its own AST, evaluated) applied to small generated modules, against a reference model read off the syntax tree.

The reference follows the property text: one member per name bound at module or class level (functions, classes, nested classes, plain and
annotated assignments, imports, definitions inside if/try/for/with blocks, instance attributes set in __init__), later bindings win except
that an assignment directly inside an `if` / `except` branch does not displace an existing member; kind, line span (decorators included for
functions and classes), docstring text, runtime flag (False in the body of `if TYPE_CHECKING:`), and every object announced exactly once,
parent before members, members-complete after its last member.
"""

from __future__ import annotations

import ast
import inspect
import itertools
import textwrap
from pathlib import PurePosixPath

from sa.absint import Interp, Native, Obj, Raised
from sa.srcmodel import Program

V = "_griffe.agents.visitor.Visitor"

DEFS = {  # name placeholder {n}; each binds exactly {n} in the scope it is written in
    "function": 'def {n}(a, b=1):\n    """Doc of {n}."""\n    return a',
    "decorated function": '@deco\n@deco2(1)\ndef {n}():\n    """Doc of {n}."""',
    "async function": "async def {n}(): ...",
    "class": 'class {n}(Base):\n    """Doc of {n}."""\n    def method(self): ...\n    inner = 1',
    "decorated class": "@deco\nclass {n}: ...",
    "assignment": '{n} = 1\n"""Doc of {n}."""',
    "annotated assignment": '{n}: int = 1\n"""Doc of {n}."""',
    "annotation only": "{n}: int",
    "assignment followed by a documented function": '{n} = 1\ndef after_{n}():\n    """Doc of the function, not of {n}."""',
    "assignment followed by a non-docstring expression": "{n} = 1\n42\nf'not a docstring'",
    "chained assignment": "{n} = {n}_b = 1",
    "assignment among targets that bind no name": 'obj.attr = 1\nd["k"] = 2\nobj.attr: int = 3\n{n} = 1\nd["k"] += 1',
    "import": "import {n}",
    "import as": "import pkg.mod as {n}",
    "from import": "from pkg import {n}",
    "from import as": "from pkg import thing as {n}",
}
CLASS_ONLY = {
    "async property": '@property\nasync def {n}(self):\n    """Doc of {n}."""',
    "cached property": "@functools.cached_property\ndef {n}(self): ...",
    "static method": "@staticmethod\ndef {n}(a): ...",
    "async static method": "@staticmethod\nasync def {n}(a): ...",
    "property": '@property\ndef {n}(self):\n    """Doc of {n}."""\n    return 1',
    "init attributes": 'def __init__(self, p):\n    self.{n} = p\n    """Doc of {n}."""\n    if p:\n        self.{n}_c = 1\n    self.other.thing = 2',
}
CONTEXTS = {  # {body} is the (indented) definition
    "top level": "{body}",
    "if body": "if cond:\n{ind}",
    "else branch": "if cond:\n    pass\nelse:\n{ind}",
    "type-checking guard": "if TYPE_CHECKING:\n{ind}",
    "else of a type-checking guard": "if TYPE_CHECKING:\n    pass\nelse:\n{ind}",
    "dotted type-checking guard": "import typing\nif typing.TYPE_CHECKING:\n{ind}",
    "negated guard": "if not TYPE_CHECKING:\n{ind}",
    "compound condition mentioning the guard": "import typing\nif cond or typing.TYPE_CHECKING:\n{ind}",
    "nested in a guard": "if TYPE_CHECKING:\n    if cond:\n{ind2}\n    y_after = 1",
    "guard nested in a guard": "if TYPE_CHECKING:\n    if TYPE_CHECKING:\n{ind2}\n    y_after = 1\nz_outside = 2",
    "after a guard": "if TYPE_CHECKING:\n    g_inside = 1\n{body}",
    "after a nested if, in a try, in a guard": "if TYPE_CHECKING:\n    try:\n        if cond:\n            pass\n{ind2}\n    except ImportError:\n        pass",
    "after a nested if, in a with, in a guard": "if TYPE_CHECKING:\n    with ctx():\n        if cond:\n            pass\n{ind2}",
    "try body": "try:\n{ind}\nexcept ImportError:\n    pass",
    "except handler": "try:\n    pass\nexcept ImportError:\n{ind}",
    "try else": "try:\n    pass\nexcept ImportError:\n    pass\nelse:\n{ind}",
    "finally": "try:\n    pass\nfinally:\n{ind}",
    "for loop": "for i_ in range(2):\n{ind}",
    "with block": "with ctx():\n{ind}",
    "nested if in try": "try:\n    if cond:\n{ind2}\nexcept ImportError:\n    pass",
}


def _indent(text: str, n: int) -> str:
    pad = " " * n
    return "\n".join(pad + ln if ln else ln for ln in text.splitlines())


def render(context: str, body: str, *, in_class: bool) -> str:
    block = CONTEXTS[context].format(body=body, ind=_indent(body, 4), ind2=_indent(body, 8))
    if in_class:
        return 'from typing import TYPE_CHECKING\n"""Module doc."""\nclass Outer:\n    """Outer doc."""\n' + _indent(block, 4) + "\n"
    return '"""Module doc."""\nfrom typing import TYPE_CHECKING\n' + block + "\n"


# ---------------------------------------------------------------------------------------------------------------- reference model
def _is_guard(test: ast.expr) -> bool:
    # the two spellings of the flag itself; a negated or compound condition is not a guard (its body may run)
    return ast.unparse(test) in ("TYPE_CHECKING", "typing.TYPE_CHECKING")


def _doc_after(body: list[ast.stmt], i: int) -> str | None:
    if i + 1 < len(body):
        nxt = body[i + 1]
        if isinstance(nxt, ast.Expr) and isinstance(nxt.value, ast.Constant) and isinstance(nxt.value.value, str):
            return inspect.cleandoc(nxt.value.value)
    return None


def _own_doc(node: ast.AST) -> str | None:
    d = ast.get_docstring(node, clean=True)  # type: ignore[arg-type]
    return d


def reference(source: str) -> dict[str, dict]:
    tree = ast.parse(source)
    out: dict[str, dict] = {}

    def bind(scope: str, name: str, info: dict, *, assignment: bool, conditional: bool) -> None:
        path = f"{scope}.{name}"
        if path in out and assignment and conditional:
            return  # an assignment directly under `if` / `except` does not displace an existing member
        if path in out:
            # members of a replaced class / function go away with it
            for p in [p for p in out if p.startswith(path + ".")]:
                del out[p]
            info["rebinding"] = True
        out[path] = info

    def block(body: list[ast.stmt], scope: str, *, guarded: bool, parent_kind: str, in_init: str | None) -> None:
        for i, st in enumerate(body):
            conditional = parent_kind in ("If", "ExceptHandler")
            if isinstance(st, (ast.FunctionDef, ast.AsyncFunctionDef)) and in_init is None:
                decos = [ast.unparse(d.func if isinstance(d, ast.Call) else d) for d in st.decorator_list]
                # a decorator *name* means the builtin only where nothing has re-bound it: in the enclosing class body or at module level, so far
                is_prop = any(d in ("property", "functools.cached_property", "cached_property") and f"{scope}.{d.split('.')[0]}" not in out and f"m.{d.split('.')[0]}" not in out
                              for d in decos)
                first = st.decorator_list[0].lineno if st.decorator_list else st.lineno
                info = {"kind": "Attribute" if is_prop else "Function", "lineno": first, "endlineno": st.end_lineno, "docstring": _own_doc(st), "runtime": not guarded,
                        "node": st}
                bind(scope, st.name, info, assignment=False, conditional=conditional)
                if st.name == "__init__" and scope.count(".") >= 1 and not is_prop:
                    block(st.body, scope, guarded=guarded, parent_kind="FunctionDef", in_init=st.args.args[0].arg if st.args.args else "self")
            elif isinstance(st, ast.ClassDef) and in_init is None:
                first = st.decorator_list[0].lineno if st.decorator_list else st.lineno
                bind(scope, st.name, {"kind": "Class", "lineno": first, "endlineno": st.end_lineno, "docstring": _own_doc(st), "runtime": not guarded, "node": st},
                     assignment=False, conditional=conditional)
                block(st.body, f"{scope}.{st.name}", guarded=guarded, parent_kind="ClassDef", in_init=None)
            elif isinstance(st, (ast.Assign, ast.AnnAssign)):
                targets = st.targets if isinstance(st, ast.Assign) else [st.target]
                names: list[str] = []
                for t in targets:
                    for e in (t.elts if isinstance(t, (ast.Tuple, ast.List)) else [t]):
                        if in_init is None and isinstance(e, ast.Name):
                            names.append(e.id)
                        elif in_init is not None and isinstance(e, ast.Attribute) and isinstance(e.value, ast.Name) and e.value.id == in_init:
                            names.append(e.attr)
                for nm in names:
                    bind(scope, nm, {"kind": "Attribute", "lineno": st.lineno, "endlineno": st.end_lineno, "docstring": _doc_after(body, i), "runtime": not guarded, "node": st},
                         assignment=True, conditional=conditional)
            elif isinstance(st, (ast.Import, ast.ImportFrom)) and in_init is None:
                for al in st.names:
                    if al.name == "*":
                        continue
                    nm = al.asname or (al.name.split(".")[0] if isinstance(st, ast.Import) else al.name)
                    bind(scope, nm, {"kind": "Alias", "lineno": st.lineno, "endlineno": st.end_lineno, "docstring": None, "runtime": not guarded, "node": st},
                         assignment=False, conditional=conditional)
            elif isinstance(st, ast.If):
                g = _is_guard(st.test)
                block(st.body, scope, guarded=guarded or g, parent_kind="If", in_init=in_init)
                block(st.orelse, scope, guarded=guarded, parent_kind="If", in_init=in_init)
            elif isinstance(st, ast.Try):
                block(st.body, scope, guarded=guarded, parent_kind="Try", in_init=in_init)
                for h in st.handlers:
                    block(h.body, scope, guarded=guarded, parent_kind="ExceptHandler", in_init=in_init)
                block(st.orelse, scope, guarded=guarded, parent_kind="Try", in_init=in_init)
                block(st.finalbody, scope, guarded=guarded, parent_kind="Try", in_init=in_init)
            elif isinstance(st, (ast.For, ast.AsyncFor, ast.While)):
                block(st.body, scope, guarded=guarded, parent_kind="For", in_init=in_init)
                block(st.orelse, scope, guarded=guarded, parent_kind="For", in_init=in_init)
            elif isinstance(st, (ast.With, ast.AsyncWith)):
                block(st.body, scope, guarded=guarded, parent_kind="With", in_init=in_init)

    block(tree.body, "m", guarded=False, parent_kind="Module", in_init=None)
    return out


# ---------------------------------------------------------------------------------------------------------------- evaluation
class Extraction:
    def __init__(self, prog: Program) -> None:
        self.prog = prog
        self.it = Interp(prog, max_depth=80, max_steps=2_000_000)
        self.it.ext_handlers["builtins.compile"] = lambda _i, src, **k: compile(src, "<m>", k.get("mode", "exec"), flags=ast.PyCF_ONLY_AST, dont_inherit=True,
                                                                              optimize=k.get("optimize", -1))
        self.events: list[tuple[str, object]] = []

    def module(self, source: str) -> Obj | str:
        """The Module object the visitor builds for `source` (or 'raises X')."""
        it = self.it
        ext = Obj(None, {"call": Native(lambda *_a, **_k: None)}, label="extensions")
        it.steps = 0
        try:
            vis = it._construct(self.prog.cls(V), ["m", PurePosixPath("/s/m.py"), source, ext], {})
            return it.call(self.prog.function(V + ".get_module"), vis)
        except Raised as r:
            return f"raises {r.exc}"

    def visit(self, source: str) -> tuple[dict[str, dict], list[tuple[str, object]]] | str:
        it = self.it
        self.events = []

        def record(event, **kw):
            obj = next((v for k, v in kw.items() if k in ("obj", "mod", "cls", "func", "attr", "alias")), None)
            self.events.append((event, obj))

        ext = Obj(None, {"call": Native(record)}, label="extensions")
        it.steps = 0
        try:
            lc = it._construct(self.prog.cls("_griffe.collections.LinesCollection"), [], {})
            it.call(self.prog.lookup_method(lc.cls, "__setitem__")[0], lc, PurePosixPath("/s/m.py"), source.splitlines())
            vis = it._construct(self.prog.cls(V), ["m", PurePosixPath("/s/m.py"), source, ext], {"lines_collection": lc})
            mod = it.call(self.prog.function(V + ".get_module"), vis)
        except Raised as r:
            return f"raises {r.exc}"
        got: dict[str, dict] = {}

        def walk(o: Obj, path: str) -> None:
            for name, c in o.attrs["members"].items():
                kind = c.cls.name if c.cls is not None else "?"
                p = f"{path}.{name}"
                doc = c.attrs.get("docstring")
                decos = c.attrs.get("decorators") or []
                entry = {"kind": kind, "runtime": c.attrs.get("runtime"), "obj": c,
                         "doc_span": (doc.attrs.get("lineno"), doc.attrs.get("endlineno")) if isinstance(doc, Obj) else None,
                         "decorators": [(d.attrs.get("lineno"), d.attrs.get("endlineno"), it._str(d.attrs["value"]) if isinstance(d.attrs.get("value"), Obj) else d.attrs.get("value"))
                                        for d in decos] if kind in ("Function", "Class") else None,
                         "lineno": c.attrs.get("alias_lineno") if kind == "Alias" else c.attrs.get("lineno"),
                         "endlineno": c.attrs.get("alias_endlineno") if kind == "Alias" else c.attrs.get("endlineno"),
                         "docstring": it.getattr(doc, "value") if isinstance(doc, Obj) else None,
                         "parent_ok": it.getattr(c, "parent") is o,
                         "lines": it.getattr(c, "lines") if kind in ("Function", "Class") else None}
                got[p] = entry
                if kind == "Class":
                    walk(c, p)

        walk(mod, "m")
        ex_ = mod.attrs.get("exports")
        self.last_exports = [x if isinstance(x, str) else it._str(x) for x in ex_] if isinstance(ex_, list) else ex_
        return got, list(self.events)


def compare(source: str, want: dict[str, dict], got: dict[str, dict], events: list[tuple[str, object]]) -> list[str]:
    problems: list[str] = []
    if sorted(want) != sorted(got):
        missing = sorted(set(want) - set(got))
        extra = sorted(set(got) - set(want))
        problems.append(f"members differ: missing {missing}, unexpected {extra}")
        return problems
    lines = source.splitlines()
    for p, w in want.items():
        g = got[p]
        for fld in ("kind", "lineno", "endlineno", "runtime"):
            if g[fld] != w[fld]:
                problems.append(f"{p}: {fld} is {g[fld]}, the source says {w[fld]}")
        if not w.get("rebinding") and g["docstring"] != w["docstring"]:
            problems.append(f"{p}: docstring is {g['docstring']!r}, the source says {w['docstring']!r}")
        if not g["parent_ok"]:
            problems.append(f"{p}: parent is not its container")
        node = w["node"]
        if g["kind"] in ("Function", "Class") and isinstance(node, (ast.FunctionDef, ast.AsyncFunctionDef, ast.ClassDef)):
            want_decos = [(d.lineno, d.end_lineno, ast.unparse(d)) for d in node.decorator_list]
            if g["decorators"] != want_decos:
                problems.append(f"{p}: decorators {g['decorators']}, the source has {want_decos}")
            if w["docstring"] is not None and not w.get("rebinding"):
                dn = node.body[0]
                if g["doc_span"] != (dn.lineno, dn.end_lineno):
                    problems.append(f"{p}: docstring span {g['doc_span']}, the source has {(dn.lineno, dn.end_lineno)}")
        if g["kind"] in ("Function", "Class") and isinstance(g["lineno"], int) and isinstance(g["endlineno"], int):
            # slicing the source by the reported span gives back that very definition
            seg = textwrap.dedent("\n".join(g["lines"] if isinstance(g.get("lines"), list) else []))  # Object.lines: the source lines of the reported span
            try:
                body_ = ast.parse(seg).body
                node = body_[0] if body_ else None
                same = isinstance(node, (ast.FunctionDef, ast.AsyncFunctionDef, ast.ClassDef)) and node.name == p.rsplit(".", 1)[-1] \
                    and ast.dump(node) == ast.dump(w["node"])
            except SyntaxError:
                same = False
            if not same:
                problems.append(f"{p}: the reported span {g['lineno']}-{g['endlineno']} does not slice out the definition")
    # announcement protocol on the recorded event trace
    inst: dict[int, int] = {}
    for i, (ev, obj) in enumerate(events):
        if ev in ("on_instance", "on_alias") and isinstance(obj, Obj):
            inst[id(obj)] = inst.get(id(obj), 0) + 1
    kind_events: dict[int, list[str]] = {}
    for ev, obj in events:
        if isinstance(obj, Obj) and ev not in ("on_instance", "on_members", "on_node"):
            kind_events.setdefault(id(obj), []).append(ev)
    for p, g in got.items():
        k = g["kind"].lower()
        evs = kind_events.get(id(g["obj"]), [])
        want_evs = ["on_alias"] if k == "alias" else [f"on_{k}_instance"] + ([f"on_{k}_members"] if k == "class" else [])
        if evs != want_evs:
            problems.append(f"{p}: kind-specific announcements {evs}, expected {want_evs}")
    placed = {id(g["obj"]): p for p, g in got.items()}
    for oid, p in placed.items():
        if inst.get(oid, 0) != 1:
            problems.append(f"{p}: announced {inst.get(oid, 0)} time(s) through on_instance / on_alias (expected exactly once)")
    first_inst = {id(o): i for i, (ev, o) in reversed(list(enumerate(events))) if ev in ("on_instance", "on_alias") and isinstance(o, Obj)}
    members_done = {id(o): i for i, (ev, o) in enumerate(events) if ev == "on_members" and isinstance(o, Obj)}
    for p, g in got.items():
        parent_path = p.rsplit(".", 1)[0]
        if parent_path in got:
            par = got[parent_path]["obj"]
            if first_inst.get(id(par), -1) > first_inst.get(id(g["obj"]), 10**9):
                problems.append(f"{p}: announced before its parent {parent_path}")
            if id(par) in members_done and members_done[id(par)] < first_inst.get(id(g["obj"]), -1):
                problems.append(f"{parent_path}: members-complete fired before its member {p} was announced")
    for p, g in got.items():
        if g["kind"] == "Class" and id(g["obj"]) not in members_done:
            problems.append(f"{p}: members-complete never fired")
    return problems


def corpus(thorough: bool) -> list[tuple[str, str]]:
    out: list[tuple[str, str]] = []
    for (cname, _c), (dname, tmpl) in itertools.product(CONTEXTS.items(), DEFS.items()):
        out.append((f"module|{cname}|{dname}", render(cname, tmpl.format(n="x"), in_class=False)))
    for (cname, _c), (dname, tmpl) in itertools.product(CONTEXTS.items(), {**DEFS, **CLASS_ONLY}.items()):
        if cname in ("top level", "if body", "type-checking guard", "except handler", "try body") or thorough:
            out.append((f"class|{cname}|{dname}", render(cname, tmpl.format(n="x"), in_class=True)))
    # duplicates: the same name bound twice, second binding in a plain / conditional position
    for (d1, t1), (d2, t2) in itertools.product(DEFS.items(), repeat=2):
        if "chained" in d1 or "chained" in d2:
            continue
        for second_ctx in ("top level", "if body", "except handler", "try body"):
            if second_ctx != "top level" and not thorough and d2 not in ("assignment", "annotated assignment", "function", "from import"):
                continue
            second = CONTEXTS[second_ctx].format(body=t2.format(n="x"), ind=_indent(t2.format(n="x"), 4), ind2="")
            out.append((f"twice|{d1} then {d2} ({second_ctx})", '"""Module doc."""\nfrom typing import TYPE_CHECKING\n' + t1.format(n="x") + "\n" + second + "\n"))
    # a string that opens the `else:` / `except:` / `finally:` block is not the docstring of the assignment that closes the block before it
    for tail_kw, opener in (("else", "if cond:"), ("except ImportError", "try:"), ("finally", "try:")):
        out.append((f"module|string opening the {tail_kw.split()[0]} block after an assignment",
                    '"""Module doc."""\nfrom typing import TYPE_CHECKING\n' + f'{opener}\n    x = 1\n{tail_kw}:\n    """Not about x."""\n    y = 2\n'))
    # __all__ assigned twice: the exports are those of the assignment that survives as the `__all__` member
    for second_ctx in ("top level", "if body", "else branch", "except handler", "try body"):
        second = CONTEXTS[second_ctx].format(body='__all__ = ["a", "b"]', ind=_indent('__all__ = ["a", "b"]', 4), ind2="")
        out.append((f"twice|__all__ then __all__ ({second_ctx})", '"""Module doc."""\nfrom typing import TYPE_CHECKING\n__all__ = ["a"]\na = b = 1\n' + second + "\n"))
    # a documented, annotated name re-assigned together with a new name: the new name starts without docstring and annotation
    for d1 in ("assignment", "annotated assignment"):
        out.append((f"twice|{d1} then chained assignment (top level)", '"""Module doc."""\nfrom typing import TYPE_CHECKING\n' + DEFS[d1].format(n="x") + "\n" + DEFS["chained assignment"].format(n="x") + "\n"))
    # two different names one after the other in a class body: what the second one becomes does not depend on the first
    seq = {**{k_: v_ for k_, v_ in DEFS.items() if k_ in ("function", "async function", "decorated function", "class", "assignment")}, **{k_: v_ for k_, v_ in CLASS_ONLY.items() if k_ != "init attributes"}}
    for (d1, t1), (d2, t2) in itertools.product(seq.items(), repeat=2):
        out.append((f"sequence|{d1} then {d2}", render("top level", t1.format(n="x") + "\n" + t2.format(n="y"), in_class=True)))
    # one decorator text, two meanings in one module: the builtin in one class, a name the class (or the module, later) binds itself in another
    doc_ = '"""Module doc."""\nfrom typing import TYPE_CHECKING\n'
    plain_ = "class Plain:\n    @property\n    def value(self):\n        return 1\n"
    shadow_ = "class Shadowing:\n    def property(f):\n        return f\n    @property\n    def value(self):\n        return 2\n"
    rebound_ = "def property(f):\n    return f\nclass Later:\n    @property\n    def value(self):\n        return 3\n"
    out.append(("shadow|builtin property, then a class that binds `property` itself", doc_ + plain_ + shadow_))
    out.append(("shadow|a class that binds `property` itself, then the builtin", doc_ + shadow_ + plain_))
    out.append(("shadow|builtin property, then `property` re-bound at module level", doc_ + plain_ + rebound_))
    # instance attributes re-assigned in __init__ (plain and conditional), with and without a class-level definition
    head = '"""Module doc."""\nfrom typing import TYPE_CHECKING\nclass Outer:\n'
    for first, (cname, ctx_t) in itertools.product(("class level", "in __init__", "none"), [(c, t) for c, t in CONTEXTS.items() if c in ("top level", "if body", "else branch", "except handler", "try body", "with block")]):
        body = ""
        if first == "class level":
            body += "    x: int = 0\n    \"\"\"Doc of x.\"\"\"\n"
        init = "def __init__(self, p):\n"
        if first == "in __init__":
            init += "    self.x = 0\n"
        second = ctx_t.format(body="self.x = p", ind=_indent("self.x = p", 4), ind2=_indent("self.x = p", 8))
        init += _indent(second, 4) + "\n"
        out.append((f"init|first binding {first}|second {cname}", head + body + _indent(init, 4) + "\n"))
    # definitions nested in the body of __init__ (which the visitor walks for `self.x = ...`): they bind local names, nothing on the class
    for dname in ("function", "decorated function", "async function", "class", "assignment", "annotated assignment", "from import", "import"):
        init = "def __init__(self, p):\n    self.x = p\n" + _indent(DEFS[dname].format(n="helper"), 4) + "\n"
        out.append((f"init|local {dname}", head + _indent(init, 4) + "\n"))
    init = "def __init__(self, p):\n    self.x = p\n    @overload\n    def helper(a: int) -> int: ...\n    @overload\n    def helper(a: str) -> str: ...\n    def helper(a): return a\n"
    out.append(("init|local overloaded function", head.replace("TYPE_CHECKING", "TYPE_CHECKING, overload") + _indent(init, 4) + "\n"))
    return out
