"""Decision tables of the visibility predicates (shared by C01-R6, C05-R1, C11-R6).

Atoms (1 152 abstract states before pruning):
  public   in {None, True, False}          explicit override
  is_alias, is_module                      booleans
  name     in {x, _x, __x, __x__}          one representative per name class
  parent   in {none, module, class}
  exports  in {None, [], [name], [other]}  parent's __all__ (only meaningful for a module parent)
  imported in {False, True}                name in parent.imports
  runtime  in {True, False}                (wildcard exposure only)

Reference tables are written from the documentation:
  * is_public docstring + docs/guide/users/navigating.md, section "Object visibility";
  * Language Reference 7.11 for `from m import *` + the docstring's sub-module special case (is_wildcard_exposed);
  * the one-line docstrings of is_private / is_special / is_class_private / is_imported / is_exported.
"""

from __future__ import annotations

import itertools
from typing import Any, Callable, Iterator

from sa.absint import Interp, Obj, Raised
from sa.srcmodel import Program

NAMES = ["x", "_x", "__x", "__x__"]
MIXIN = "_griffe.mixins.ObjectAliasMixin"


def states(*, with_runtime: bool = False) -> Iterator[dict[str, Any]]:
    for public, alias, module, name, parent, exports, imported in itertools.product(
        (None, True, False), (False, True), (False, True), NAMES, ("none", "module", "class"), ("None", "[]", "[name]", "[other]"), (False, True)
    ):
        if parent != "module" and exports != "None":
            continue  # only modules carry __all__
        if parent == "none" and imported:
            continue
        for runtime in ((True, False) if with_runtime else (True,)):
            yield {"public": public, "is_alias": alias, "is_module": module, "name": name, "parent": parent, "exports": exports,
                   "imported": imported, "runtime": runtime}


def build(prog: Program, st: dict[str, Any]) -> Obj:
    cls = prog.cls(MIXIN)
    parent = None
    if st["parent"] != "none":
        exports = {"None": None, "[]": [], "[name]": [st["name"]], "[other]": ["other"]}[st["exports"]]
        parent = Obj(None, {
            "is_module": st["parent"] == "module", "is_class": st["parent"] == "class", "exports": exports,
            "imports": {st["name"]: "elsewhere." + st["name"]} if st["imported"] else {}, "path": "p",
        }, label="parent")
    return Obj(cls, {"public": st["public"], "is_alias": st["is_alias"], "is_module": st["is_module"], "name": st["name"], "parent": parent,
                     "runtime": st["runtime"], "deprecated": None}, label=st["name"])


# ---------------------------------------------------------------------------------------------- reference tables
def _special(n: str) -> bool:
    return n.startswith("__") and n.endswith("__")


def ref_is_special(st: dict) -> bool:
    return _special(st["name"])


def ref_is_private(st: dict) -> bool:
    return st["name"].startswith("_") and not _special(st["name"])


def ref_is_class_private(st: dict) -> bool:
    return st["parent"] == "class" and st["name"].startswith("__") and not st["name"].endswith("__")


def ref_is_imported(st: dict) -> bool:
    return st["parent"] != "none" and st["imported"]


def ref_is_exported(st: dict) -> bool | None:
    if st["parent"] == "none":
        return None  # undefined for parentless objects (not judged)
    return st["parent"] == "module" and st["exports"] == "[name]"


def ref_is_public(st: dict) -> bool:
    if st["public"] is not None:
        return st["public"]
    if not st["is_alias"] and st["is_module"] and not st["name"].startswith("_"):
        return True
    if st["parent"] == "module" and st["exports"] != "None":  # the parent module defines __all__
        return st["exports"] == "[name]"
    if ref_is_private(st):
        return False
    if ref_is_imported(st):
        return False
    return True


def ref_is_wildcard_exposed(st: dict) -> bool | None:
    if st["parent"] == "none":
        return None
    if not st["runtime"] or st["parent"] != "module":
        return False
    if st["exports"] != "None":
        return st["exports"] == "[name]"
    if st["name"].startswith("_"):
        return False
    return st["is_alias"] or not st["is_module"] or st["imported"]


REFS: dict[str, Callable[[dict], "bool | None"]] = {
    "is_special": ref_is_special,
    "is_private": ref_is_private,
    "is_class_private": ref_is_class_private,
    "is_imported": ref_is_imported,
    "is_exported": ref_is_exported,
    "is_public": ref_is_public,
    "is_wildcard_exposed": ref_is_wildcard_exposed,
}


def fmt(st: dict) -> str:
    return (f"public={st['public']} alias={st['is_alias']} module={st['is_module']} name={st['name']} parent={st['parent']} "
            f"__all__={st['exports']} imported={st['imported']}" + ("" if st["runtime"] else " runtime=False"))


def tabulate(prog: Program, predicate: str) -> list[tuple[dict, Any, Any]]:
    """-> rows (state, code value as bool / 'raises X', reference) for every state where the reference is defined."""
    it = Interp(prog)
    ref = REFS[predicate]
    rows = []
    for st in states(with_runtime=predicate == "is_wildcard_exposed"):
        want = ref(st)
        if want is None:
            continue
        obj = build(prog, st)
        it.steps = 0
        try:
            got: Any = bool(it.truth(it.getattr(obj, predicate)))
        except Raised as r:
            got = f"raises {r.exc}"
        rows.append((st, got, want))
    return rows
