"""Driver: `python sa/check.py Cnn [--tier quick|thorough] [--replay path]`.

exit 0: every rule instance discharged (open known findings printed as KNOWN-FINDING)
exit 1: a witness violates a rule and is not a known finding (VIOLATION property=... replay=...)
exit 2: ANALYSIS-ERROR (anchor vanished / construct not modelled / instance count below floor)
"""

from __future__ import annotations

import argparse
import importlib
import json
import os
import sys
import time
import traceback
from pathlib import Path

sys.path.insert(0, str(Path(__file__).resolve().parent.parent))

from sa import report  # noqa: E402
from sa.srcmodel import AnalysisError, Program  # noqa: E402

PROPS = [f"C{n:02d}" for n in range(1, 21)]


def run_property(prop: str, tier: str, overlay: dict[str, str] | None = None, *, emit: bool = True) -> tuple[int, report.Ctx]:
    started = time.time()
    prog = Program(overlay=overlay)
    ctx = report.Ctx(prop, tier)
    mod = importlib.import_module(f"sa.rules.{prop}")
    mod.run(prog, ctx)
    code = report.finish(ctx, started, prog.stats(), seed=report.env_seed(), emit=emit)
    return code, ctx


def main(argv: list[str] | None = None) -> int:
    ap = argparse.ArgumentParser()
    ap.add_argument("prop")
    ap.add_argument("--tier", default=os.environ.get("VERIF_TIER", "quick"), choices=["quick", "thorough"])
    ap.add_argument("--replay")
    args = ap.parse_args(argv)
    if args.prop not in PROPS:
        print(f"unknown property {args.prop}")
        return 2
    try:
        code, ctx = run_property(args.prop, args.tier)
        if args.replay:
            want = json.loads(Path(args.replay).read_text())
            hits = [o for o in ctx.obligations if o.rule == want["rule"] and o.key == want["key"]]
            for o in hits:
                print(f"REPLAY {args.prop}-{o.rule} key={o.key}\n  where={o.where}\n  ok={o.ok}\n  what={o.what}")
                print("  detail=" + json.dumps(o.detail, indent=1, default=str))
            if not hits:
                print("REPLAY: rule instance no longer exists on this tree")
            return 1 if any(not o.ok for o in hits) else 0
        if code == 0 and args.tier == "thorough":
            from sa import selftest

            code = selftest.run_for(args.prop)
        return code
    except AnalysisError as exc:
        print(f"ANALYSIS-ERROR property={args.prop}: {exc}")
        return 2
    except Exception:  # noqa: BLE001
        print(f"ANALYSIS-ERROR property={args.prop}: internal error")
        traceback.print_exc()
        return 2


if __name__ == "__main__":
    import signal

    signal.signal(signal.SIGPIPE, signal.SIG_DFL)
    sys.exit(main())
